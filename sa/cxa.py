"""Shared analyses over the engine AST: lvalue bases, stores, effect inventories (EFF), index polynomials,
update summaries (UPD), a reusable must-facts client (dominating guards)."""
from fractions import Fraction

from . import cxfe, ir
from .cxfe import kids, raw_kids, strip, kind, name_of, text, walk, subscript, call_parts, op_call
from .core import AnalysisError
from .poly import Poly

MUTATING = {"resize", "clear", "push_back", "assign", "erase", "insert", "emplace_back", "pop_back", "swap",
            "shrink_to_fit", "emplace", "seed", "reset", "discard", "param"}
NONMUTATING = {"size", "empty", "at", "begin", "end", "front", "back", "data", "count", "c_str", "capacity",
               "min", "max", "cbegin", "cend"}


# ------------------------------------------------------------------------------------------------ lvalues
def lvalue_base(n):
    """the variable an lvalue expression denotes storage of: strips subscripts / member chains.
    returns ('field', name) for this->name..., ('var', name, declid) for locals / params / globals, or None"""
    n = strip(n, casts=True)
    k = n.get("kind")
    while True:
        sub = subscript(n)
        if sub is not None:
            n = strip(sub[0], casts=True)
            k = n.get("kind")
            continue
        if k == "MemberExpr":
            b = kids(n)
            if not b or strip(b[0]).get("kind") == "CXXThisExpr":
                return ("field", n.get("name"))
            if n.get("isArrow"):
                # p->field : storage of the pointee, keyed by the pointer variable
                inner = lvalue_base(b[0])
                if inner:
                    return ("pointee",) + inner[1:] + (n.get("name"),)
                return None
            n = strip(b[0], casts=True)
            k = n.get("kind")
            continue
        if k == "UnaryOperator" and n.get("opcode") == "*":
            inner = lvalue_base(kids(n)[0])
            return ("pointee",) + inner[1:] if inner else None
        if k == "DeclRefExpr":
            rd = n.get("referencedDecl", {})
            return ("var", rd.get("_u") or rd.get("name"), rd.get("id"))
        return None


class Store:
    __slots__ = ("node", "target", "base", "op", "rhs", "how")

    def __init__(self, node, target, op, rhs, how):
        self.node, self.target, self.op, self.rhs, self.how = node, target, op, rhs, how
        self.base = lvalue_base(target) if target is not None else None


def stores_of_node(n):
    """stores performed directly by node n (not by sub-expressions)"""
    k = n.get("kind")
    i = kids(n)
    if k == "BinaryOperator" and n.get("opcode") == "=":
        # x = x + e  /  x = e + x  /  x = x - e   are the compound updates  x += e  /  x -= e
        r = strip(i[1], casts=True)
        if r.get("kind") == "BinaryOperator" and r.get("opcode") in ("+", "-") and subscript(i[0]) is not None:
            a, b = kids(r)
            ta = _plain_text(i[0])
            if _plain_text(a) == ta:
                return [Store(n, i[0], r["opcode"] + "=", b, "assign")]
            if r["opcode"] == "+" and _plain_text(b) == ta:
                return [Store(n, i[0], "+=", a, "assign")]
        return [Store(n, i[0], "=", i[1], "assign")]
    if k == "CompoundAssignOperator":
        return [Store(n, i[0], n["opcode"], i[1], "assign")]
    if k == "UnaryOperator" and n.get("opcode") in ("++", "--"):
        return [Store(n, i[0], n["opcode"], None, "incdec")]
    if k == "CXXOperatorCallExpr":
        op = name_of(i[0])
        if op in ("operator=", "operator+=", "operator-=", "operator*=", "operator/="):
            return [Store(n, i[1], op[len("operator"):], i[2], "assign")]
        if op in ("operator++", "operator--"):
            return [Store(n, i[1], op[len("operator"):], None, "incdec")]
        if op == "operator()":
            # functor call: arguments bound to non-const references are written (uiud(rng), dist(...)(rng))
            out = []
            for a in i[2:]:
                if _nonconst_ref_arg(a):
                    out.append(Store(n, a, "ref", None, "refarg"))
            return out
    if k == "CXXMemberCallExpr":
        callee = strip(i[0])
        m = callee.get("name")
        obj = kids(callee)[0] if kids(callee) else None
        if obj is not None and m in MUTATING and strip(obj).get("kind") != "CXXThisExpr":
            return [Store(n, obj, m, i[1] if len(i) > 1 else None, "method")]
    return []


def _plain_text(n):
    """structural text of an lvalue (before `canon` exists): subscripts by polynomial index"""
    n = strip(n, casts=True)
    sub = subscript(n)
    if sub is not None:
        return _plain_text(sub[0]) + "[" + repr(poly(sub[1])) + "]"
    return text(n)


def _nonconst_ref_arg(a):
    """an argument that is an lvalue of class type passed where Clang did not insert a const-qualifying cast"""
    s = a
    while s.get("kind") in cxfe.WRAPPERS:
        if s.get("kind") == "ImplicitCastExpr" and s.get("castKind") in ("NoOp", "LValueToRValue"):
            return False
        s = kids(s)[-1]
    if s.get("valueCategory") != "lvalue":
        return False
    t = s.get("type", {}).get("qualType", "")
    return "std::" in t or "mt19937" in t or "mersenne" in t


def all_stores(body):
    out = []
    for n in walk(body):
        out.extend(stores_of_node(n))
    return out


# ------------------------------------------------------------------------------------------------ effects
class Effects:
    """per-function direct and transitive read / write sets over fields ('f:<name>') and globals ('g:<name>')"""

    def __init__(self, tu):
        self.tu = tu
        self.gl = {g["name"] for g in tu.globals}
        self.direct = {}
        self.calls = {}
        for f in tu.all_fns():
            if f.body is not None:
                self.direct[f.qual] = self._direct(f)
        self.trans = {q: (set(r), set(w)) for q, (r, w) in self.direct.items()}
        changed = True
        while changed:
            changed = False
            for q in self.trans:
                r, w = self.trans[q]
                for c in self.calls[q]:
                    if c in self.trans:
                        cr, cw = self.trans[c]
                        if not cr <= r or not cw <= w:
                            r |= cr
                            w |= cw
                            changed = True

    def _sym(self, base):
        if base is None:
            return None
        if base[0] == "field":
            return "f:" + base[1]
        if base[0] == "var" and base[1] in self.gl:
            return "g:" + base[1]
        if base[0] == "pointee" and base[1] in self.gl:
            return "g:*" + base[1]
        return None

    def _direct(self, f):
        reads, writes = set(), set()
        callees = set()
        store_targets = set()
        for n in walk(f.body):
            for s in stores_of_node(n):
                sym = self._sym(s.base)
                if sym:
                    writes.add(sym)
                    if s.op == "=" and s.how == "assign" and subscript(s.target) is None:
                        store_targets.add(id(strip(s.target, casts=True)))
            for c in self.tu.resolve_calls(f, n):
                callees.add(c.qual)
        for n in walk(f.body):
            k = n.get("kind")
            if k == "MemberExpr" and cxfe.is_this_member(n) and id(n) not in store_targets:
                if n.get("name") in (f.cls and self.tu.all_fields(f.cls.name) or {}):
                    reads.add("f:" + n["name"])
            elif k == "DeclRefExpr" and n.get("referencedDecl", {}).get("name") in self.gl \
                    and id(n) not in store_targets:
                reads.add("g:" + n["referencedDecl"]["name"])
        self.calls[f.qual] = callees
        return reads, writes

    def writes(self, qual):
        return self.trans[qual][1]

    def reads(self, qual):
        return self.trans[qual][0]

    def reach(self, quals):
        seen = set()
        todo = list(quals)
        while todo:
            q = todo.pop()
            if q in seen or q not in self.calls:
                continue
            seen.add(q)
            todo.extend(self.calls[q])
        return seen


# ------------------------------------------------------------------------------------------------ polynomials
def atom_name(n):
    n = strip(n, casts=True)
    k = n.get("kind")
    if k == "MemberExpr":
        b = kids(n)
        if b and strip(b[0]).get("kind") == "CXXThisExpr":
            return n["name"]
        return (atom_name(b[0]) + "." if b else "") + n["name"]
    if k == "DeclRefExpr":
        did = n.get("referencedDecl", {}).get("id")
        init = cxfe.CONST_INLINE.get(did)
        if init is not None and did not in _inlining:
            _inlining.add(did)
            try:
                return atom_name(init)
            finally:
                _inlining.discard(did)
        return n["referencedDecl"].get("_u") or n["referencedDecl"].get("name", "?")
    sub = subscript(n)
    if sub is not None:
        return atom_name(sub[0]) + "[" + repr(poly(sub[1])) + "]"
    if k == "CXXMemberCallExpr":
        i = kids(n)
        return atom_name(i[0]) + "(" + ",".join(atom_name(a) for a in i[1:]) + ")"
    return "<" + text(n) + ">"


def poly(n, env=None):
    """index polynomial over atoms; env: local name -> Poly (inlined single-assignment locals)"""
    n = strip(n, casts=True)
    k = n.get("kind")
    if k == "IntegerLiteral":
        return Poly.const(int(n["value"]))
    if k == "BinaryOperator" and n["opcode"] in ("+", "-", "*"):
        l, r = kids(n)
        a, b = poly(l, env), poly(r, env)
        return a + b if n["opcode"] == "+" else a - b if n["opcode"] == "-" else a * b
    if k == "UnaryOperator" and n["opcode"] == "-":
        return -poly(kids(n)[0], env)
    if k == "UnaryOperator" and n["opcode"] == "+":
        return poly(kids(n)[0], env)
    if k == "DeclRefExpr":
        did = n.get("referencedDecl", {}).get("id")
        init = cxfe.INLINE.get(did) or cxfe.CONST_INLINE.get(did)
        if init is not None and did not in _inlining:
            _inlining.add(did)
            try:
                return poly(init, env)
            finally:
                _inlining.discard(did)
    nm = atom_name(n)
    if env and nm in env:
        return env[nm]
    return Poly.sym(nm)


_inlining = set()


# ------------------------------------------------------------------------------------------------ facts client
class GuardFacts(ir.Client):
    """must-facts: canonical texts of the conditions known true / false on every path, killed by stores to the
    variables they mention.  `on_atom(node, facts)` / `on_cond(node, facts)` observe."""

    def __init__(self, on_atom=None, on_cond=None, gen=None):
        self.on_atom, self.on_cond, self.gen = on_atom, on_cond, gen

    @staticmethod
    def split(cond, positive):
        """facts implied by cond being `positive`: list of (text, polarity)"""
        c = strip(cond)
        k = c.get("kind")
        if k == "UnaryOperator" and c.get("opcode") == "!":
            return GuardFacts.split(kids(c)[0], not positive)
        if k == "BinaryOperator" and c.get("opcode") == "&&" and positive:
            return GuardFacts.split(kids(c)[0], True) + GuardFacts.split(kids(c)[1], True)
        if k == "BinaryOperator" and c.get("opcode") == "||" and not positive:
            return GuardFacts.split(kids(c)[0], False) + GuardFacts.split(kids(c)[1], False)
        if k == "BinaryOperator" and c.get("opcode") in ("!=", "=="):
            # normalise  a != b  to  not (a == b)
            l, r = kids(c)
            eq = c["opcode"] == "=="
            return [("%s == %s" % (text(l), text(r)), positive == eq)]
        return [(text(c), positive)]

    @staticmethod
    def mentions(fact_text, name):
        import re
        return re.search(r"(?<![A-Za-z0-9_])%s(?![A-Za-z0-9_])" % re.escape(name), fact_text) is not None

    def assume(self, cond, positive, cfg):
        if isinstance(cond, tuple):   # switch case
            _, subj, label = cond
            if label is None:
                return cfg
            return cfg | {("%s == %s" % (text(subj), text(label)), True)}
        return cfg | frozenset(self.split(cond, positive))

    def cond(self, cond, cfg):
        if self.on_cond and self.record:
            self.on_cond(cond, cfg)
        return self._kill(cond, cfg)

    def _kill(self, node, cfg):
        killed = set()
        for n in walk(node):
            for s in stores_of_node(n):
                if s.base is not None:
                    killed.add(s.base[1])
            if n.get("kind") == "VarDecl":
                killed.add(n.get("name"))
                killed.add(n.get("_u"))
        if killed:
            cfg = frozenset(f for f in cfg if not (isinstance(f[0], str) and
                                                    any(self.mentions(f[0], k) for k in killed if k)))
        return cfg

    def atom(self, node, cfg):
        if self.on_atom and self.record:
            self.on_atom(node, cfg)
        cfg = self._kill(node, cfg)
        if self.gen:
            g = self.gen(node)
            if g:
                cfg = cfg | frozenset(g)
        return cfg


def must_facts(fn_body, on_atom=None, on_cond=None, gen=None, init=frozenset()):
    cl = GuardFacts(on_atom, on_cond, gen)
    eng = ir.Engine(cl, "must")
    return eng.run(ir.cx_to_ir(fn_body), init)


# ------------------------------------------------------------------------------------------------ loops
def for_parts(n):
    p = raw_kids(n)
    return p[0] or None, p[2] or None, p[3] or None, p[4]


def loops_in(body):
    return [n for n in walk(body) if n.get("kind") in ("ForStmt", "WhileStmt", "DoStmt", "CXXForRangeStmt")]


def const_int(n):
    # the compiler's own evaluation of a constant expression (case labels, enumerators): `case SAMPLE_ON_INTERVAL` is `case 2`
    if n.get("kind") == "ConstantExpr" and str(n.get("value", "")).lstrip("-").isdigit():
        return int(n["value"])
    n = strip(n, casts=True)
    if n.get("kind") == "IntegerLiteral":
        return int(n["value"])
    if n.get("kind") == "UnaryOperator" and n.get("opcode") == "-":
        v = const_int(kids(n)[0])
        return -v if v is not None else None
    if n.get("kind") == "UnaryOperator" and n.get("opcode") == "+":
        return const_int(kids(n)[0])
    return None


# ------------------------------------------------------------------------------------------------ canonical text
def canon(n):
    """canonical expression text: unique local names, subscript indices in polynomial normal form, no casts"""
    n = strip(n, casts=True)
    k = n.get("kind")
    i = kids(n)
    sub = subscript(n)
    if sub is not None:
        return canon(sub[0]) + "[" + repr(poly(sub[1])) + "]"
    if k == "MemberExpr":
        if i and strip(i[0]).get("kind") == "CXXThisExpr":
            return n["name"]
        return (canon(i[0]) + ("->" if n.get("isArrow") else ".") if i else "") + n["name"]
    if k == "DeclRefExpr":
        rd = n["referencedDecl"]
        init = cxfe.CONST_INLINE.get(rd.get("id")) or cxfe.INLINE.get(rd.get("id"))
        if init is not None and rd.get("id") not in _inlining:
            _inlining.add(rd.get("id"))
            try:
                return canon(init)
            finally:
                _inlining.discard(rd.get("id"))
        return rd.get("_u") or rd.get("name", "?")
    if k in ("IntegerLiteral", "FloatingLiteral"):
        v = n["value"]
        try:
            f = Fraction(v)
            return str(int(f)) if f.denominator == 1 else str(float(f))
        except Exception:
            return v
    if k == "UnaryOperator":
        if n.get("opcode") == "-" and strip(i[0], casts=True).get("kind") in ("IntegerLiteral", "FloatingLiteral"):
            return "-" + canon(i[0])
        return (canon(i[0]) + n["opcode"]) if n.get("isPostfix") else n["opcode"] + "(" + canon(i[0]) + ")"
    if k in ("BinaryOperator", "CompoundAssignOperator"):
        return "(" + canon(i[0]) + " " + n["opcode"] + " " + canon(i[1]) + ")"
    if k in ("CallExpr", "CXXMemberCallExpr"):
        return canon(i[0]) + "(" + ", ".join(canon(c) for c in i[1:]) + ")"
    if k == "CXXOperatorCallExpr":
        return str(name_of(i[0])) + "(" + ", ".join(canon(c) for c in i[1:]) + ")"
    if k == "CXXBoolLiteralExpr":
        return "true" if n.get("value") else "false"
    return text(n)


def canon_inl(n, fn_body, _depth=0):
    """canon() with single-assignment locals replaced by their (call-free) initialisers"""
    defs, assigned = {}, set()
    for x in walk(fn_body):
        if x.get("kind") == "VarDecl" and kids(x):
            defs[x.get("id")] = kids(x)[-1]
        for s in stores_of_node(x):
            if s.base and s.base[0] == "var":
                assigned.add(s.base[2])

    def rec(e, depth):
        e = strip(e, casts=True)
        if e.get("kind") == "DeclRefExpr":
            did = e.get("referencedDecl", {}).get("id")
            d = defs.get(did)
            if d is not None and did not in assigned and depth < 6 and \
                    not any(y.get("kind") in ("CallExpr", "CXXMemberCallExpr") for y in walk(d)):
                return rec(d, depth + 1)
            return canon(e)
        k = e.get("kind")
        i = kids(e)
        sub = subscript(e)
        if sub is not None:
            return rec(sub[0], depth) + "[" + repr(poly(sub[1])) + "]"
        if k in ("BinaryOperator", "CompoundAssignOperator"):
            return "(" + rec(i[0], depth) + " " + e["opcode"] + " " + rec(i[1], depth) + ")"
        return canon(e)
    return rec(n, 0)


def cfacts(cond, positive):
    """canonical facts of a condition: list of (canonical text, polarity); a != b is (a == b, False);
    relational tests are normalised to  a < b / a <= b  with polarity"""
    c = strip(cond)
    k = c.get("kind")
    if k == "DeclRefExpr":
        init = cxfe.CONST_INLINE.get(c.get("referencedDecl", {}).get("id"))
        if init is not None and c["referencedDecl"]["id"] not in _inlining:
            _inlining.add(c["referencedDecl"]["id"])
            try:
                return cfacts(init, positive)
            finally:
                _inlining.discard(c["referencedDecl"]["id"])
    if k == "UnaryOperator" and c.get("opcode") == "!":
        return cfacts(kids(c)[0], not positive)
    if k == "BinaryOperator" and c.get("opcode") == "&&" and positive:
        return cfacts(kids(c)[0], True) + cfacts(kids(c)[1], True)
    if k == "BinaryOperator" and c.get("opcode") == "||" and not positive:
        return cfacts(kids(c)[0], False) + cfacts(kids(c)[1], False)
    if k == "BinaryOperator" and c.get("opcode") in ("==", "!=", "<", "<=", ">", ">="):
        l, r = canon(kids(c)[0]), canon(kids(c)[1])
        op = c["opcode"]
        if op == "==":
            return [("%s == %s" % (l, r), positive)]
        if op == "!=":
            return [("%s == %s" % (l, r), not positive)]
        if op == "<":
            return [("%s < %s" % (l, r), positive)]
        if op == "<=":
            return [("%s <= %s" % (l, r), positive)]
        if op == ">":
            return [("%s < %s" % (r, l), positive)]
        if op == ">=":
            return [("%s <= %s" % (r, l), positive)]
    if k in ("BinaryOperator",) and c.get("opcode") in ("&&", "||"):
        return []
    return [("%s" % canon(c), positive)]   # truthiness of a value:  (x, True) means x != 0


class CanonFacts(GuardFacts):
    """GuardFacts with canonical, polynomial-normalised fact texts"""

    def assume(self, cond, positive, cfg):
        if isinstance(cond, tuple):
            _, subj, label = cond
            if label is None:
                return cfg
            return cfg | {("%s == %s" % (canon(subj), canon(label)), True)}
        return cfg | frozenset(cfacts(cond, positive))


def canon_facts(fn_body, on_atom=None, on_cond=None, gen=None, init=frozenset()):
    cl = CanonFacts(on_atom, on_cond, gen)
    eng = ir.Engine(cl, "must")
    return eng.run(ir.cx_to_ir(fn_body), init)


def local_facts(root, target):
    """facts established *inside one expression* on the way from root down to target: arms of ?: and the
    right operands of && / ||"""
    path = []

    def find(n):
        if n is target:
            return True
        for c in kids(n):
            if find(c):
                path.append((n, c))
                return True
        return False
    if not find(root):
        return []
    out = []
    for parent, child in path:
        k = parent.get("kind")
        pk = kids(parent)
        if k == "ConditionalOperator":
            if child is pk[1]:
                out += cfacts(pk[0], True)
            elif child is pk[2]:
                out += cfacts(pk[0], False)
        elif k == "BinaryOperator" and parent.get("opcode") == "&&" and child is pk[1]:
            out += cfacts(pk[0], True)
        elif k == "BinaryOperator" and parent.get("opcode") == "||" and child is pk[1]:
            out += cfacts(pk[0], False)
    return out


def is_nonzero_fact(facts, subject):
    """facts entail subject != 0"""
    return (subject, True) in facts or ("%s == 0" % subject, False) in facts or ("0 == %s" % subject, False) in facts \
        or ("0 < %s" % subject, True) in facts


def is_positive_fact(facts, subject):
    """facts entail subject > 0"""
    if ("0 < %s" % subject, True) in facts or ("%s <= 0" % subject, False) in facts:
        return True
    for (t, pol) in facts:
        if not isinstance(t, str):
            continue
        # c < subject / c <= subject with a positive constant
        for op in (" < ", " <= "):
            if t.endswith(op + subject) and pol:
                lhs = t[: -len(op + subject)]
                try:
                    v = float(lhs)
                    if v > 0 or (v == 0 and op == " < "):
                        return True
                except ValueError:
                    pass
    return False


def follow_local(e, fn_body):
    """e, or the initialiser of the never-reassigned local it names (calls included: `int j = F(..); T[k] = j;`)"""
    for _ in range(4):
        x = strip(e, casts=True)
        if x.get("kind") != "DeclRefExpr":
            return e
        did = x.get("referencedDecl", {}).get("id")
        decl = [d for d in walk(fn_body) if d.get("kind") == "VarDecl" and d.get("id") == did and kids(d)]
        if len(decl) != 1:
            return e
        for y in walk(fn_body):
            for st in stores_of_node(y):
                if st.base and st.base[0] == "var" and len(st.base) > 2 and st.base[2] == did:
                    return e
        e = kids(decl[0])[-1]
    return e
