"""Shared analyses over Python functions: canonical condition facts, a must-facts client (dominating guards,
early raise / return / continue), truth-table entailment over comparison atoms (ENT)."""
import ast, itertools, re

from . import ir, pyfe


def _strip_int(n):
    """int(x) -> x ; x.value stays"""
    while isinstance(n, ast.Call) and isinstance(n.func, ast.Name) and n.func.id in ("int", "float") \
            and len(n.args) == 1:
        n = n.args[0]
    return n


def ctext(n):
    return pyfe.src(_strip_int(n))


FLIP = {ast.Lt: ast.Gt, ast.Gt: ast.Lt, ast.LtE: ast.GtE, ast.GtE: ast.LtE, ast.Eq: ast.Eq, ast.NotEq: ast.NotEq}


def atoms(cond, positive=True):
    """facts implied by `cond` evaluating to `positive`: list of (text, polarity).
    Comparison atoms are normalised to  a < b, a <= b, a == b, a in b, a is b  with a polarity."""
    c = cond
    if isinstance(c, ast.UnaryOp) and isinstance(c.op, ast.Not):
        return atoms(c.operand, not positive)
    if isinstance(c, ast.BoolOp):
        conj = isinstance(c.op, ast.And)
        if conj == positive:        # (a and b) true ; (a or b) false : every operand decided
            out = []
            for v in c.values:
                out += atoms(v, positive)
            return out
        return [(ctext(c), positive)]      # a disjunction: known only as a whole
    if isinstance(c, ast.Compare):
        out = []
        left = c.left
        parts = []
        for op, right in zip(c.ops, c.comparators):
            parts.append((left, op, right))
            left = right
        if len(parts) > 1 and not positive:
            return []               # negated chain is a disjunction
        for l, op, r in parts:
            out += _cmp(l, op, r, positive)
        return out
    if isinstance(c, ast.Call) and isinstance(c.func, ast.Name) and c.func.id in ("isnone",) and c.args:
        return [("%s is None" % ctext(c.args[0]), positive)]
    return [(ctext(c), positive)]


def _cmp(l, op, r, positive):
    a, b = ctext(l), ctext(r)
    # an order comparison is recorded in both of its spellings:  a < b  holds  <=>  b <= a  does not
    if isinstance(op, ast.Lt):
        return [("%s < %s" % (a, b), positive), ("%s <= %s" % (b, a), not positive)]
    if isinstance(op, ast.LtE):
        return [("%s <= %s" % (a, b), positive), ("%s < %s" % (b, a), not positive)]
    if isinstance(op, ast.Gt):
        return [("%s < %s" % (b, a), positive), ("%s <= %s" % (a, b), not positive)]
    if isinstance(op, ast.GtE):
        return [("%s <= %s" % (b, a), positive), ("%s < %s" % (a, b), not positive)]
    if isinstance(op, ast.Eq):
        return [("%s == %s" % (a, b), positive)]
    if isinstance(op, ast.NotEq):
        return [("%s == %s" % (a, b), not positive)]
    if isinstance(op, ast.Is):
        return [("%s is %s" % (a, b), positive)]
    if isinstance(op, ast.IsNot):
        return [("%s is %s" % (a, b), not positive)]
    if isinstance(op, ast.In):
        return [("%s in %s" % (a, b), positive)]
    if isinstance(op, ast.NotIn):
        return [("%s in %s" % (a, b), not positive)]
    return []


def stored_names(node):
    out = set()
    # `v = int(v)` re-binds v to the same number: facts about v survive
    if isinstance(node, ast.Assign) and len(node.targets) == 1 and isinstance(node.targets[0], ast.Name) and \
            isinstance(_strip_int(node.value), ast.Name) and _strip_int(node.value).id == node.targets[0].id:
        return out
    for n in ast.walk(node):
        if isinstance(n, ast.Name) and isinstance(n.ctx, (ast.Store, ast.Del)):
            out.add(n.id)
        elif isinstance(n, ast.Attribute) and isinstance(n.ctx, ast.Store):
            out.add(pyfe.src(n))
        elif isinstance(n, ast.Subscript) and isinstance(n.ctx, ast.Store):
            out.add(pyfe.src(n.value))
        elif isinstance(n, ast.AugAssign):
            out.add(pyfe.src(n.target))
    return out


def mentions(text, name):
    text = re.sub(r"'[^']*'|\"[^\"]*\"", "''", text)     # names inside string literals are not variables
    return re.search(r"(?<![A-Za-z0-9_.])%s(?![A-Za-z0-9_])" % re.escape(name), text) is not None


class PyFacts(ir.Client):
    inline_fn = None     # when set: single-assignment locals of this function are inlined into condition atoms

    def __init__(self, on_stmt=None, on_cond=None, gen=None):
        self.on_stmt, self.on_cond, self.gen = on_stmt, on_cond, gen

    def assume(self, cond, positive, cfg):
        if self.inline_fn is not None:
            from . import pysym
            cond = pysym.inline(cond, self.inline_fn)
        return cfg | frozenset(atoms(cond, positive))

    def cond(self, cond, cfg):
        if self.on_cond and self.record:
            self.on_cond(cond, cfg)
        if self.gen:
            g = self.gen(cond)
            if g:
                cfg = cfg | frozenset(g)
        return cfg

    def _kill(self, names, cfg):
        if not names:
            return cfg
        return frozenset(f for f in cfg if not (isinstance(f[0], str) and any(mentions(f[0], k) for k in names)))

    def atom(self, node, cfg):
        if self.on_stmt and self.record:
            self.on_stmt(node, cfg)
        cfg = self._kill(stored_names(node), cfg)
        if self.gen:
            g = self.gen(node)
            if g:
                cfg = cfg | frozenset(g)
        return cfg

    def loop_head(self, s, cfg):
        tgt, it = s.extra
        cfg = self._kill(stored_names(tgt), cfg)
        # for v in range(E) :  0 <= v < E
        if isinstance(it, ast.Call) and isinstance(it.func, ast.Name) and it.func.id == "range" and \
                isinstance(tgt, ast.Name):
            if len(it.args) == 1:
                cfg = cfg | {("%s < %s" % (tgt.id, ctext(it.args[0])), True), ("0 <= %s" % tgt.id, True)}
            elif len(it.args) == 2:
                cfg = cfg | {("%s < %s" % (tgt.id, ctext(it.args[1])), True),
                             ("%s <= %s" % (ctext(it.args[0]), tgt.id), True)}
        cfg = cfg | {("iter:%s in %s" % (pyfe.src(tgt), pyfe.src(it)), True)}
        return cfg


def must_facts(fn, on_stmt=None, on_cond=None, gen=None, init=frozenset()):
    cl = PyFacts(on_stmt, on_cond, gen)
    eng = ir.Engine(cl, "must")
    eng.run(ir.py_to_ir(fn.body), init)
    return cl


# ------------------------------------------------------------------------------------------------ ENT
def bool_eval(expr, assign):
    """evaluate a boolean expression given truth values of its comparison atoms (text -> bool)"""
    if isinstance(expr, ast.BoolOp):
        vals = [bool_eval(v, assign) for v in expr.values]
        return all(vals) if isinstance(expr.op, ast.And) else any(vals)
    if isinstance(expr, ast.UnaryOp) and isinstance(expr.op, ast.Not):
        return not bool_eval(expr.operand, assign)
    if isinstance(expr, ast.Compare):
        left = expr.left
        res = True
        for op, right in zip(expr.ops, expr.comparators):
            (t, pol) = _cmp(left, op, right, True)[0]
            res = res and (assign[t] == pol)
            left = right
        return res
    return assign[ctext(expr)]


def expr_atoms(expr):
    out = []
    if isinstance(expr, ast.BoolOp):
        for v in expr.values:
            out += expr_atoms(v)
    elif isinstance(expr, ast.UnaryOp) and isinstance(expr.op, ast.Not):
        out += expr_atoms(expr.operand)
    elif isinstance(expr, ast.Compare):
        left = expr.left
        for op, right in zip(expr.ops, expr.comparators):
            (t, pol) = _cmp(left, op, right, True)[0]
            out.append(t)
            left = right
    else:
        out.append(ctext(expr))
    return out


def entails(expr, wanted):
    """expr (ast) |= every (text, polarity) in wanted ?  truth table over expr's atoms (<= 12)"""
    ats = sorted(set(expr_atoms(expr)))
    if len(ats) > 12:
        raise ValueError("too many atoms")
    for w, _ in wanted:
        if w not in ats:
            return False
    for vals in itertools.product([False, True], repeat=len(ats)):
        asg = dict(zip(ats, vals))
        if bool_eval(expr, asg):
            for w, pol in wanted:
                if asg[w] != pol:
                    return False
    return True
