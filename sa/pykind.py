"""IDX (Python side) -- index kinds of expressions used to address the species-major state / chemostat arrays.

kinds: 'cell', 'species', 'flat' (species*size + cell), 'sample', None (unknown).  Sources: the resolver methods
(get_cell_index / get_species_index / get_state_index), loop variables over range(<extent>), single-definition
locals, and the polynomial species*size + cell."""
import ast

from . import pyfe, pya
from .poly import Poly

RESOLVERS = {"get_state_index": "flat", "get_cell_index": "cell", "get_species_index": "species",
             "get_reaction_index": "reaction", "get_sample_index": "sample"}


def extent_kind(e, fn, depth=0):
    """kind whose extent the integer expression e is (|cell|, |species|, ...), else None"""
    s = pyfe.src(e).replace(" ", "")
    if s.endswith(".size()") or s.endswith("ncells()") or s.endswith(".nodes)") and s.startswith("len("):
        return "cell"
    if s.endswith("nspecies()") or (s.startswith("len(") and (s.endswith("species)") or s.endswith("species_labels())"))):
        return "species"
    if s.endswith("nreactions()") or (s.startswith("len(") and s.endswith("reactions)")):
        return "reaction"
    if s.endswith("nsamples()") or (s.startswith("len(") and (s.endswith("t_sample)") or s.endswith(".t)"))):
        return "sample"
    if isinstance(e, ast.Name) and depth < 4:
        d = single_def(fn, e.id)
        if d is not None:
            return extent_kind(d, fn, depth + 1)
    if isinstance(e, ast.Call) and pyfe.call_name(e) == "len" and len(e.args) == 1 and depth < 4:
        a0 = e.args[0]
        if isinstance(a0, ast.Attribute) and a0.attr == "value":      # len(dx.value) == len(dx) for a UnitArray
            a0 = a0.value
        d = single_def(fn, a0.id) if isinstance(a0, ast.Name) else None
        if d is not None:
            # len(dx) where dx is built from dsto(species labels) / a per-species list
            ds = pyfe.src(d)
            if "dsto(" in ds or "ssto(" in ds or "psto(" in ds or "species_labels()" in ds:
                return "species"
    return None


def single_def(fn, name):
    defs = []
    for n in ast.walk(fn):
        if isinstance(n, ast.Assign) and len(n.targets) == 1 and isinstance(n.targets[0], ast.Name) and \
                n.targets[0].id == name:
            defs.append(n.value)
        elif isinstance(n, (ast.AugAssign,)) and isinstance(n.target, ast.Name) and n.target.id == name:
            return None
        elif isinstance(n, ast.For):
            for t in ast.walk(n.target):
                if isinstance(t, ast.Name) and t.id == name:
                    return None
    if defs and all(pyfe.src(d) == pyfe.src(defs[0]) for d in defs):
        return defs[0]
    return None


def loop_kind(fn, name, at):
    """kind of a loop variable `for name in range(E)` enclosing node `at`"""
    p = pyfe.parent(at)
    while p is not None and p is not fn:
        if isinstance(p, (ast.For, ast.comprehension)):
            pass
        if isinstance(p, ast.For) and isinstance(p.target, ast.Name) and p.target.id == name:
            it = p.iter
            if isinstance(it, ast.Call) and pyfe.call_name(it) == "range" and len(it.args) == 1:
                return extent_kind(it.args[0], fn)
            return None
        if isinstance(p, ast.For) and isinstance(p.target, ast.Tuple) and len(p.target.elts) == 2 and \
                isinstance(p.target.elts[0], ast.Name) and p.target.elts[0].id == name:
            it = p.iter        # for name, item in enumerate(E): name ranges over len(E)
            if isinstance(it, ast.Call) and pyfe.call_name(it) == "enumerate" and len(it.args) == 1 and not it.keywords:
                return extent_kind(ast.parse("len(%s)" % pyfe.src(it.args[0]), mode="eval").body, fn)
            return None
        if isinstance(p, (ast.ListComp, ast.GeneratorExp)):
            for g in p.generators:
                if isinstance(g.target, ast.Name) and g.target.id == name and isinstance(g.iter, ast.Call) and \
                        pyfe.call_name(g.iter) == "range" and len(g.iter.args) == 1:
                    return extent_kind(g.iter.args[0], fn)
        p = pyfe.parent(p)
    return None


def kind(e, fn, at=None, depth=0):
    """(kind, provenance) of an index expression"""
    at = at or e
    e = pya._strip_int(e)
    if isinstance(e, ast.Call):
        nm = pyfe.call_name(e).split(".")[-1]
        if nm in RESOLVERS:
            return RESOLVERS[nm], e
        return None, None
    if isinstance(e, ast.Name):
        lk = loop_kind(fn, e.id, at)
        if lk:
            return lk, None
        d = single_def(fn, e.id) if depth < 4 else None
        if d is not None:
            return kind(d, fn, d, depth + 1)
        return None, None
    if isinstance(e, ast.Subscript):
        # element of an index-valued table
        s = pyfe.src(e.value)
        if s.endswith("get_cell_env_array()") or s.endswith("cell_env") or s == "cellenv" or s == "cell_env":
            return "env", None
        return None, None
    if isinstance(e, ast.BinOp) and isinstance(e.op, ast.Add):
        # species * |cell| + cell
        for a, b in ((e.left, e.right), (e.right, e.left)):
            if isinstance(a, ast.BinOp) and isinstance(a.op, ast.Mult):
                for x, y in ((a.left, a.right), (a.right, a.left)):
                    kx, _ = kind(x, fn, at, depth + 1)
                    if kx == "species" and extent_kind(y, fn) == "cell":
                        kb, _ = kind(b, fn, at, depth + 1)
                        if kb == "cell":
                            return "flat", None
                        return "bad:species*size + %s" % kb, None
                    if kx == "cell" and extent_kind(y, fn) == "species":
                        return "bad:cell-major form", None
        return None, None
    return None, None
