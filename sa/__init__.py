"""sa -- repository-specific static analysis for the 20 properties of `strengths`.

Standard library only; run with /venv/bin/python (the interpreter the repository runs under).
Nothing in here imports or executes the package or the engine: Python sources are read through
`ast`, the C++ engine through Clang's type-resolved JSON AST (`-fsyntax-only`).
"""
import os

VERIF = os.path.dirname(os.path.dirname(os.path.abspath(__file__)))
REPO = os.environ.get("SA_REPO", "/repo")
