"""Local names written back to the reference spelling (alpha-renaming).

Many rules locate a construct through the name the pinned tree gives a local (`da`, `v_out`, `x, y, z`, `cellenv` ...).  Renaming
a local is the most common behaviour-preserving edit there is, so before any rule runs every function's locals are aligned with
the locals the same function has on the reference tree (sa/localnames.json: per function, its local names in order of first
binding -- a frozen table, regenerated only with `python -m sa.pynames freeze`):

  * a local whose name the reference function also has keeps it;
  * between two such anchors, a run of k unknown names facing a run of k missing reference names is renamed pairwise, in order
    of first binding;
  * everything else is left alone.

The rewriting is a consistent renaming of local variables inside one function to names that occur nowhere else in it, i.e. an
alpha-conversion: the program analysed is equivalent to the program given whatever the alignment guessed, so it can neither hide
nor create a violation -- it only lets name-based anchors find their construct again.  Reports print the reference names."""
import ast
import difflib
import json
import os

TABLE = os.path.join(os.path.dirname(os.path.abspath(__file__)), "localnames.json")
_table = None


def table():
    global _table
    if _table is None:
        try:
            _table = json.load(open(TABLE))
        except Exception:
            _table = {}
    return _table


def _params(f):
    a = f.args
    out = {x.arg for x in a.posonlyargs + a.args + a.kwonlyargs}
    if a.vararg:
        out.add(a.vararg.arg)
    if a.kwarg:
        out.add(a.kwarg.arg)
    return out


def _own_nodes(f):
    """nodes of f in source order, not entering nested function / class definitions (their headers excepted)"""
    out = []

    def rec(n):
        for c in ast.iter_child_nodes(n):
            if isinstance(c, (ast.FunctionDef, ast.AsyncFunctionDef, ast.ClassDef, ast.Lambda)):
                out.append(c)
                continue
            out.append(c)
            rec(c)
    rec(f)
    return out


def binding_order(f):
    """distinct names bound (stored) in f itself, in source order of their first binding; parameters, globals and nonlocals excluded"""
    skip = set(_params(f))
    for n in _own_nodes(f):
        if isinstance(n, (ast.Global, ast.Nonlocal)):
            skip |= set(n.names)
    seen, out = set(), []
    for n in _own_nodes(f):
        nm = None
        if isinstance(n, ast.Name) and isinstance(n.ctx, (ast.Store, ast.Del)):
            nm = n.id
        elif isinstance(n, (ast.FunctionDef, ast.ClassDef)):
            continue
        if nm is not None and nm not in skip and nm not in seen:
            seen.add(nm)
            out.append(nm)
    return out


def functions(tree, modname):
    """(qualified name, FunctionDef) for every function of a module, nested ones included"""
    out = []

    def rec(body, prefix):
        for n in body:
            if isinstance(n, ast.FunctionDef):
                q = prefix + n.name
                if any(ast.unparse(d).endswith(".setter") for d in n.decorator_list):
                    q += ".setter"
                out.append((q, n))
                rec(n.body, q + ".<locals>.")
            elif isinstance(n, ast.ClassDef):
                rec(n.body, prefix + n.name + ".")
            elif isinstance(n, (ast.If, ast.For, ast.While, ast.With, ast.Try)):
                for fld in ("body", "orelse", "finalbody"):
                    rec(getattr(n, fld, []) or [], prefix)
    rec(tree.body, modname + ".")
    return out


def _rename(f, m):
    """rename the locals of f according to m, also where nested functions read them as free variables"""
    def rec(n, active):
        for c in ast.iter_child_nodes(n):
            if isinstance(c, (ast.FunctionDef, ast.AsyncFunctionDef, ast.Lambda)):
                bound = _params(c) | ({x.id for x in ast.walk(c) if isinstance(x, ast.Name) and isinstance(x.ctx, ast.Store)}
                                      if not isinstance(c, ast.Lambda) else set())
                rec(c, {k: v for k, v in active.items() if k not in bound})
                continue
            if isinstance(c, ast.Name) and c.id in active:
                c.id = active[c.id]
            rec(c, active)
    rec(f, dict(m))


def align(tree, modname, log=None):
    ref = table()
    if not ref:
        return 0
    done = 0
    for q, f in functions(tree, modname):
        R = ref.get(q)
        if not R:
            continue
        C = binding_order(f)
        if C == R or not C:
            continue
        used = {x.id for x in ast.walk(f) if isinstance(x, ast.Name)} | _params(f) | \
            {a.arg for x in ast.walk(f) if isinstance(x, ast.arguments) for a in x.args}
        Rset = set(R)
        m = {}
        for tag, i1, i2, j1, j2 in difflib.SequenceMatcher(a=R, b=C, autojunk=False).get_opcodes():
            if tag == "replace" and (i2 - i1) == (j2 - j1):
                for r_, c_ in zip(R[i1:i2], C[j1:j2]):
                    if c_ not in Rset and r_ not in used and r_ not in m.values():
                        m[c_] = r_
        if m:
            _rename(f, m)
            done += len(m)
            if log is not None:
                log.append((q, "locals renamed to the reference spelling: %s" % ", ".join("%s<-%s" % (v, k) for k, v in sorted(m.items()))))
    return done


def freeze(repo):
    """build the reference table from a source tree (the pinned tree)"""
    import warnings
    out = {}
    d = os.path.join(repo, "src", "strengths")
    for fn in sorted(os.listdir(d)):
        if not fn.endswith(".py"):
            continue
        with warnings.catch_warnings():
            warnings.simplefilter("ignore")
            tree = ast.parse(open(os.path.join(d, fn), "rb").read().decode("utf-8"))
        for q, f in functions(tree, fn[:-3]):
            names = binding_order(f)
            if names:
                out[q] = names
    json.dump(out, open(TABLE, "w"), indent=0, sort_keys=True)
    return len(out)


if __name__ == "__main__":
    import sys
    if len(sys.argv) > 1 and sys.argv[1] == "freeze":
        print("functions with locals:", freeze(sys.argv[2] if len(sys.argv) > 2 else os.environ.get("SA_REPO", "/repo")))
