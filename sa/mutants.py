"""Checker self-test (thorough tier).  Each mutant is one small edit of the *current* tree, applied to a scratch copy
(mktemp, outside /repo and /verif, removed afterwards).  The property's rules are then run against the copy:
the expected rule must report a violation.  A mutant whose anchor text no longer exists is skipped and counted;
if more than a third of a property's mutants are skipped the self-test fails closed (exit 2).

The verdict on /repo never comes from here: this validates the checker, both ways (silent on the tree: the main run;
firing on each mutant: here)."""
import json, os, shutil, subprocess, sys, tempfile
from concurrent.futures import ThreadPoolExecutor

from . import VERIF, REPO

E = "src/strengths/engines/strengths_engine/src/"
P = "src/strengths/"

# (property, name, file, old, new, rule expected to fire)
MUTANTS = [
    # ---- C06
    ("C06", "table-factor-wrong", P + "units.py", "\"dmm\" : 1e-4,", "\"dmm\" : 1e-5,", "C06.SI-TABLE"),
    ("C06", "nL-maps-to-cmm", P + "units.py", "        elif volstr == \"nL\" :\n            return \"dmm\"", "        elif volstr == \"nL\" :\n            return \"cmm\"", "C06.DERIVED"),
    ("C06", "exponent-key-fixed", P + "units.py", "/_units_conversion_dict[k][su_dst[k]])**sdim[k]", "/_units_conversion_dict[k][su_dst[k]])**sdim[\"time\"]", "C06.KEYS"),
    ("C06", "convert-without-dimguard", P + "units.py", "        if u.dim != v.units.dim :\n            raise ValueError(\"unit conversion must happen in the same dimension. Trying to convert", "        if False :\n            raise ValueError(\"unit conversion must happen in the same dimension. Trying to convert", "C06.DIMGUARD"),
    ("C06", "hour-is-360s", P + "units.py", "\"h\"   : 3600,", "\"h\"   : 360,", "C06.SI-TABLE"),
    ("C15", "areneigh-wrong-extent", P + "rdgridspace.py", "            dy = min(dy, abs(self.h-dy))", "            dy = min(dy, abs(self.w-dy))", "C15.AXIS"),
    ("C15", "areneigh-drops-z", P + "rdgridspace.py", "        return ((dx + dy + dz) == 1)", "        return ((dx + dy) == 1)", "C15.DISP"),
    ("C15", "areneigh-no-wrap-test", P + "rdgridspace.py", "        if self._boundary_conditions[\"z\"] == \"periodical\" :\n            dz = min(dz, abs(self.d-dz))", "        dz = min(dz, abs(self.d-dz))", "C15.DISP"),
    ("C01", "get-edge-directed", P + "rdgraphspace.py", "            if (edge.i==i and edge.j==j) or (edge.i==j and edge.j==i) :", "            if (edge.i==i and edge.j==j) :", "C01.NEIGH"),
    ("C01", "graph-neighbours-above-only", P + "kinetics.py", "        if j != position :\n            if system.space.get_edge(position, j) is not None :", "        if j > position :\n            if system.space.get_edge(position, j) is not None :", "C01.NEIGH"),
    # ---- rules added in round 9
    ("C01", "update-clamped", E + "EulerGraph.hpp", "                mesh_x[i*n_species+j] += mesh_dxdt[i*n_species+j]*dt;\n",
     "                mesh_x[i*n_species+j] += mesh_dxdt[i*n_species+j]*dt;\n                if(mesh_x[i*n_species+j] < 0) mesh_x[i*n_species+j] = 0;\n", "C01.PHASE"),
    ("C02", "self-neighbour-skipped-between-halves", E + "TauLeap3D.hpp", "                    int j = mesh_neighbors[i*6+n];\n",
     "                    int j = mesh_neighbors[i*6+n];\n                    if(j == i) continue;\n", "C02.PAIR"),
    ("C07", "tauleap-without-molecules", P + "engine_collection.py", "        option = \"tauleap\",\n        description=\"description\",\n        requires_molecules=True",
     "        option = \"tauleap\",\n        description=\"description\",\n        requires_molecules=False", "C07.UNITS"),
    ("C11", "unbounded-scan", E + "engine.cpp", "            if(mesh_x_sto[i*n_species+s]>0)\n              {\n              mesh_x_sto[i*n_species+s]--;\n              delta_count++;\n              }",
     "            int c = i;\n            while(!(mesh_x_sto[c*n_species+s]>0)) c++;\n            mesh_x_sto[c*n_species+s]--;\n            delta_count++;", "C11.BOUNDS"),
    ("C12", "default-space-made-up", P + "rdsystem.py", "        da[\"space\"] = space        \n", "        da[\"space\"] = space        \n    else :\n        da[\"space\"] = RDGridSpace(units_system = da[\"units_system\"])\n", "C12.DEFAULTS"),
    ("C13", "empty-label-dropped", P + "value_processing.py", "                for ki in k.split(\",\") : \n                    v_out[ki.strip()] = UnitValue(",
     "                for ki in [p for p in k.split(\",\") if p.strip() != \"\"] : \n                    v_out[ki.strip()] = UnitValue(", "C13.GROUPKEY"),
    ("C15", "index-truncated-as-a-whole", P + "rdgridspace.py", "            return int(position[0]) + int(position[1])*self.w + int(position[2])*self.w*self.h",
     "            return int(position[0] + position[1]*self.w + position[2]*self.w*self.h)", "C15.RADIX"),
    # ---- rules added in round 8
    ("C01", "direction-pair-skipped", "src/strengths/engines/strengths_engine/src/Euler3D.hpp",
     "if(mesh_neighbors[i*6+n] != -1)\n", "if(mesh_neighbors[i*6+n] != -1 && !((n%2) == 1 && mesh_neighbors[i*6+n] == mesh_neighbors[i*6+n-1]))\n",
     "C01.PHASE"),
    ("C02", "neighbour-list-reversed", "src/strengths/engines/strengths_engine/src/SimulationAlgorithmGraphBase.hpp",
     "          mesh_neighbor_dst[edge_j[i]].push_back(edge_dst[i]);\n          }\n",
     "          mesh_neighbor_dst[edge_j[i]].push_back(edge_dst[i]);\n          }\n      for(int i=0; i<n_meshes; i++) mesh_neighbor_sfc[i].pop_back();\n",
     "C02.NBR-TABLE"),
    ("C05", "unitarray-iterable", "src/strengths/units.py",
     "    def __len__(self) :\n        return len(self.value)",
     "    def __iter__(self) :\n        return iter([self.get_at(i) for i in range(len(self._value))])\n\n    def __len__(self) :\n        return len(self.value)",
     "C05.REFLECTED"),
    ("C10", "engine-keeps-callers-script", "src/strengths/librdengine.py",
     "self._script = script.copy()", "self._script = script", "C10.OWN"),
    ("C14", "correction-skipped-for-small-totals", "src/strengths/engines/strengths_engine/src/engine.cpp",
     "    if(delta == 0) continue;\n", "    if(delta == 0) continue;\n    if(tot_species[s] < 1) continue;\n", "C14.COUNT"),
    ("C15", "kd-second-opinion", "src/strengths/engines/strengths_engine/src/SimulationAlgorithm3DBase.hpp",
     "                    if(j==-1)\n", "                    if(j==-1 || j < i - w*h*d)\n", "C15.NBR-USE"),
    ("C17", "supeq-loses-last-sample", "src/strengths/rdoutput.py",
     "        if t==self.t.get_at(self.nsamples()-1) :\n            return self.nsamples()-1\n", "", "C17.TILING"),
    ("C17", "labels-fold-case", "src/strengths/rdnetwork.py",
     "if self.species[i].label == species :", "if self.species[i].label.lower() == species.lower() :", "C17.LABEL"),
    ("C18", "value-kept-as-given", "src/strengths/units.py",
     "            self._value = float(v)", "            self._value = v", "C18.PRINT"),
    ("C19", "zero-means-empty-side", "src/strengths/rdnetwork.py",
     'tokens[0].strip() == "")', 'tokens[0].strip() in ("", "0"))', "C19.ACCUM"),
    ("C20", "tuple-environments-unvalidated", "src/strengths/rdnetwork.py",
     "        if isarray(environments) :\n            if len(environments) == 0 :",
     "        if type(environments) == tuple :\n            self._environments = environments\n            return\n        if isarray(environments) :\n            if len(environments) == 0 :",
     "C20.ENUM"),
    # ---- rules added in round 7
    ("C01", "rates-skipped-in-empty-node", E + "EulerGraph.hpp", "            for(int r=0; r<n_reactions; r++)\n                rr[r] = ReactionRate(i, r);", "            bool empty_node = (mesh_x[i*n_species] == 0);\n            for(int r=0; r<n_reactions; r++)\n                if(!empty_node) rr[r] = ReactionRate(i, r);", "C01.PHASE"),
    ("C06", "computed-dtype", P + "units.py", "            self._value = np.array(v, dtype=float)", "            self._value = np.array(v, dtype=getattr(v, \"dtype\", float))", "C06.LOSSY"),
    ("C06", "set-at-unconverted", P + "units.py", "            self.value[i] = v.convert(self.units).value", "            self.value[i] = v.value", "C06.SET-AT"),
    ("C08", "sample-per-run-slice", P + "simulate.py", "            continue_simulation = engine.run(1000)\n", "            continue_simulation = engine.run(1000)\n            engine.sample()\n", "C08.DRIVER"),
    ("C09", "tauleap-dead-state-exit", E + "TauLeap3D.hpp", "        Compute_nevt();\n        Apply_nevt();", "        Compute_nevt();\n        if(mesh_nr.size() == 0) FlagAsComplete();\n        Apply_nevt();", "C09.COMPLETE"),
    ("C11", "amount-cast-to-int", E + "TauLeap3D.hpp", "        Compute_nevt();\n        Apply_nevt();", "        Compute_nevt();\n        int first = static_cast<int>(mesh_x[0]); (void)first;\n        Apply_nevt();", "C11.FPCAST"),
    ("C12", "path-prefers-working-directory", P + "filepath.py", "        if pathlib.Path(path).is_absolute() :", "        if pathlib.Path(path).is_absolute() or pathlib.Path(path).exists() :", "C12.FILEREF"),
    ("C12", "units-row-reordered", P + "rdnetwork.py", "                [\"units\", \"units_system\", \"units system\", \"u\"]", "                [\"units_system\", \"units\", \"units system\", \"u\"]", "C12.SCHEMA"),
    ("C18", "units-text-trimmed", P + "units.py", "            u = parse_units(sys)\n            self.sys = u.sys", "            sys = sys.strip().rpartition(\" \")[2]\n            u = parse_units(sys)\n            self.sys = u.sys", "C18.RAW-TEXT"),
    ("C19", "equation-arrows-replaced", P + "rdnetwork.py", "            self._fromstring(stoichiometry)", "            stoichiometry = stoichiometry.replace(\"=>\", \"->\")\n            self._fromstring(stoichiometry)", "C19.ACCUM"),
    ("C20", "node-volume-kept-as-given", P + "rdgraphspace.py", "        self._volume = UnitValue(v, Units(sys=self.units_system, dim=volume_units_dimensions()), convert=False)", "        if type(v) == UnitValue :\n            self._volume = v.copy()\n        else :\n            self._volume = UnitValue(v, Units(sys=self.units_system, dim=volume_units_dimensions()), convert=False)", "C20.DIMS"),
    ("C16", "cgmap-coerced", P + "simulate.py", "        cgscript = script.copy()\n", "        cgmap = [int(i) for i in cgmap]\n        cgscript = script.copy()\n", "C16.VALID-FIRST"),
    # ---- rules added in round 6
    ("C01", "rate-skips-zero-net-species", E + "SimulationAlgorithm3DBase.hpp", "        for(int s=0; s<n_species; s++)\n            r *= pow(mesh_x[mesh_index*n_species+s], sub[s*n_reactions+reaction_index]);", "        for(int s=0; s<n_species; s++)\n            {\n            if(sto[s*n_reactions+reaction_index] == 0) continue;\n            r *= pow(mesh_x[mesh_index*n_species+s], sub[s*n_reactions+reaction_index]);\n            }", "C01.PHASE"),
    ("C09", "t0-sample-overwritten", P + "librdengine.py", "            data[i] = data_[i]\n            \n        return UnitArray(value=data, ", "            data[i] = data_[i]\n        data[0:self._script.system.state_size()] = self._script.system.state.value\n            \n        return UnitArray(value=data, ", "C09.FETCH-PY"),
    ("C06", "convert-fast-path", P + "units.py", "        return convert_unitvalue(self, u)", "        if type(u) == Units and u.sys == self.units.sys :\n            return self.copy()\n        return convert_unitvalue(self, u)", "C06.DIMGUARD"),
    ("C10", "released-returns-minus-one", E + "engine.cpp", "extern \"C\" int engineexport_iterate()\n    {\n    if(global_algo_freed) return 0;", "extern \"C\" int engineexport_iterate()\n    {\n    if(global_algo_freed) return -1;", "C10.STATUS"),
    ("C11", "finalize-deletes-both", E + "engine.cpp", "    if (global_space_type == 0)\n      delete global_grid_algo;\n    else\n      delete global_graph_algo;", "    delete global_grid_algo;\n    delete global_graph_algo;", "C11.FINALIZE"),
    ("C11", "progress-int-division", E + "SimulationAlgorithm3DBase.hpp", "    void CheckTMax()\n      {", "    int SampleProgress()\n      {\n      return 100*sample_pos/n_samples;\n      }\n\n    void CheckTMax()\n      {", "C11.INTDIV"),
    ("C13", "volume-of-cell-zero", P + "rdsystem.py", "        state[i] = (cell_species_density * cell_vol.get_at(i)).convert(units_system).value", "        state[i] = (cell_species_density * cell_vol.get_at(0)).convert(units_system).value", "C13.TAG"),
    ("C13", "chemostats-view-of-argument", P + "rdsystem.py", "        v = np.array(v, dtype=int)\n", "        v = np.asarray(v, dtype=int)\n", "C13.ALIAS"),
    ("C14", "normal-branch-not-integral", E + "engine.cpp", "      mesh_x_sto[i] = std::max(0.0, std::floor(std::normal_distribution<double>(mesh_x[i], sqrt(mesh_x[i]))(rng)));", "      mesh_x_sto[i] = std::max(0.0, std::normal_distribution<double>(mesh_x[i], sqrt(mesh_x[i]))(rng));", "C14.INTEGER"),
    ("C14", "selection-weighted-by-drawn-state", E + "engine.cpp", "        cumul += mesh_x[i*n_species+s];", "        cumul += mesh_x_sto[i*n_species+s];", "C14.COUNT"),
    ("C15", "flux-over-odd-directions", E + "Euler3D.hpp", "              for (int n=0; n<6; n++)", "              for (int n=1; n<6; n+=2)", "C15.NBR-USE"),
    ("C16", "volume-sanity-check", P + "coarsegrain.py", "    check_index_map_validity(index_map, space)\n", "    check_index_map_validity(index_map, space)\n    if grid.cell_vol*len(index_map) != grid.cell_vol*grid.size() :\n        raise ValueError(\"inconsistent volumes\")\n", "C16.ACCEPT"),
    ("C17", "single-sample-shortcut", P + "rdoutput.py", "        t = UnitValue(t, self.t.units, convert=True)", "        if self.nsamples() == 1 :\n            return 0\n        t = UnitValue(t, self.t.units, convert=True)", "C17.UNITS"),
    ("C20", "bc-tested-lowercased", P + "rdgridspace.py", "            if boundary_conditions[axis] not in [\"reflecting\", \"periodical\"] :", "            if str(boundary_conditions[axis]).lower() not in [\"reflecting\", \"periodical\"] :", "C20.ENUM"),
    ("C05", "dimensionless-unwrapped", P + "units.py", "            UnitValue(1, \"µm\") > UnitValue(1, \"µm/s\") # ValueError\n\n        \"\"\"\n\n        if type(v) == UnitValue :", "            UnitValue(1, \"µm\") > UnitValue(1, \"µm/s\") # ValueError\n\n        \"\"\"\n\n        if type(v) == UnitValue and v.units.dim == UnitsDimensions() :\n            return self.value > v.value\n        if type(v) == UnitValue :", "C05.TAG"),
    # ---- rules added in round 5
    ("C01", "bc-z-gets-y", P + "librdengine.py", "ctypes.c_char_p((script.system.space.get_boundary_conditions()[\"z\"]).encode()),", "ctypes.c_char_p((script.system.space.get_boundary_conditions()[\"y\"]).encode()),", "C01.AXIS"),
    ("C02", "module-level-cache", P + "librdengine.py", "def build_stoechiometric_difference_matrix(species, reactions) :", "_STO_CACHE = {}\ndef build_stoechiometric_difference_matrix(species, reactions) :\n    _STO_CACHE[len(species)] = len(reactions)", "C02.MEMO"),
    ("C03", "graph-chemostat-test-in-loop", P + "kinetics.py", "        d += (d_rates[1] - d_rates[0])\n    \n    if apply_chemostats and system.get_chemostat(species, position):\n    \treturn UnitValue(0, \"molecule/s\").convert(units_system)", "        d += (d_rates[1] - d_rates[0])\n        if apply_chemostats and system.get_chemostat(species, position):\n            return UnitValue(0, \"molecule/s\").convert(units_system)", "C03.PY-ZERO"),
    ("C04", "pow-int-division", E + "SimulationAlgorithm3DBase.hpp", "mesh_kd[i*n_species*6 + s*6+ n] = Dij/(mesh_edge*mesh_edge);", "mesh_kd[i*n_species*6 + s*6+ n] = Dij/pow(mesh_vol, 2/3);", "C04.HOMOG"),
    ("C06", "exponent-overwritten", P + "units.py", "            dim[field] += se", "            dim[field] = se", "C06.EXPSUM"),
    ("C18", "exponent-overwritten-c18", P + "units.py", "            dim[field] += se", "            dim[field] = se", "C18.EXPSUM"),
    ("C06", "array-target-own-units", P + "units.py", "        if type(u) == str :\n            u =  parse_units(u)\n", "        if type(u) == str :\n            u =  parse_units(u)\n        elif type(u) == UnitArray :\n            u = self.units\n", "C06.DIMGUARD"),
    ("C07", "tau-clock-not-dt", E + "TauLeap3D.hpp", "        Apply_nevt();\n        t += dt;", "        Apply_nevt();\n        t += 0.5*dt;", "C07.TAU"),
    ("C08", "init-refuses-when-live", E + "engine.cpp", "    {\n    global_space_type = 0;", "    {\n    if(!global_algo_freed) return 5;\n    global_space_type = 0;", "C08.GLOBALS"),
    ("C09", "complete-when-samples-used-up", E + "SimulationAlgorithm3DBase.hpp", "            Sample();\n            sample_pos ++;\n            }\n        }\n\n    void SampleOnInterval()", "            Sample();\n            sample_pos ++;\n            }\n        if(sample_pos>=n_samples) FlagAsComplete();\n        }\n\n    void SampleOnInterval()", "C09.COMPLETE"),
    ("C10", "del-finalizes", P + "librdengine.py", "    def finalize(self) :\n        \n        self._lib.engineexport_finalize()", "    def finalize(self) :\n        \n        self._lib.engineexport_finalize()\n\n    def __del__(self) :\n        self.finalize()", "C10.RELEASE"),
    ("C11", "environments-filtered", P + "librdengine.py", "        environments = script.system.network.environments\n", "        environments = [e for e in script.system.network.environments if e != \"unused\"]\n", "C11.ENV-RANGE"),
    ("C12", "glued-coefficient", P + "rdnetwork.py", "                        label = token[0].strip()\n", "                        label = token[0].strip().lstrip(\"0123456789\")\n", "C12.ACCUM"),
    ("C13", "network-setter-copies", P + "rdsystem.py", "        self._network = v\n", "        self._network = v.copy()\n", "C13.REGEN"),
    ("C14", "poisson-loop-over-cells", E + "engine.cpp", "      for(size_t i=0; i<mesh_x.size(); i++)\n        {\n        mesh_x[i] = (mesh_x[i]>0)", "      for(int i=0; i<n_meshes; i++)\n        {\n        mesh_x[i] = (mesh_x[i]>0)", "C14.EVERY-ENTRY"),
    ("C15", "areneigh-linear-shortcut", P + "rdgridspace.py", "        coord1 = self.get_cell_coordinates(self.get_cell_index(position1))", "        if isnumber(position1) and isnumber(position2) :\n            return abs(int(position1) - int(position2)) in (1, self.w, self.w*self.h)\n        coord1 = self.get_cell_coordinates(self.get_cell_index(position1))", "C15.DISP"),
    ("C16", "dropped-cells-checked-for-env", P + "coarsegrain.py", "        if im[i] == -1 :\n            continue\n        if env_out[im[i]] == -2 :", "        if env_out[im[i]] == -2 :", "C16.ACCEPT"),
    ("C16", "order-accumulator-hoisted", E + "SimulationAlgorithmGraphBase.hpp", "        for(int i=0;i<n_meshes;i++)\n          {\n          for(int r=0; r<n_reactions; r++)\n            {\n            double q = 0;", "        double q = 0;\n        for(int i=0;i<n_meshes;i++)\n          {\n          for(int r=0; r<n_reactions; r++)\n            {", "C16.RUNSUM"),
    ("C18", "value-filter-without-plus", P + "units.py", "        value = float(tok[0])", "        import re\n        if re.match(r\"[+-]?(\\d+\\.?\\d*|\\.\\d+)([eE]-?\\d+)?$\", tok[0]) is None :\n            raise ValueError(\"not a number\")\n        value = float(tok[0])", "C18.VALUE-READ"),
    ("C19", "duplicate-by-identity", P + "rdnetwork.py", "            if sd.get(s.label, None) != None : ", "            if self.get_species(s.label) is not s : ", "C19.VALID"),
    ("C20", "labels-joined-to-text", P + "rdnetwork.py", "        sl = self.species_labels()\n        for i in range(len(self.reactions)):", "        sl = \", \".join(self.species_labels())\n        for i in range(len(self.reactions)):", "C20.MEMBER"),
    # ---- rules added in rounds 2-3
    ("C02", "nbr-table-coords-swapped", E + "SimulationAlgorithm3DBase.hpp", "this->mesh_neighbors[i*6+n] = GetNeighborIndex(xcoord, ycoord, zcoord, n);", "this->mesh_neighbors[i*6+n] = GetNeighborIndex(ycoord, xcoord, zcoord, n);", "C02.NBR-TABLE"),
    ("C02", "graph-edge-one-way", E + "SimulationAlgorithmGraphBase.hpp", "          mesh_neighbor_index[edge_j[i]].push_back(edge_i[i]);", "          mesh_neighbor_index[edge_j[i]].push_back(edge_j[i]);", "C02.NBR-TABLE"),
    ("C02", "uncg-divides-by-all-nodes", P + "coarsegrain.py", "in_state[n, s, node_index]/len(cg_nodes[node_index])", "in_state[n, s, node_index]/len(cg_nodes)", "C02.UNCG"),
    ("C03", "source-also-needs-free-destination", E + "Gillespie3D.hpp", "        if(!mesh_chstt[mesh_index*n_species+species_index])\n            {\n            mesh_x[mesh_index*n_species+species_index] -= 1;", "        if(!mesh_chstt[mesh_index*n_species+species_index] && !mesh_chstt[j*n_species+species_index])\n            {\n            mesh_x[mesh_index*n_species+species_index] -= 1;", "C03.GUARD-ID"),
    ("C05", "eq-with-tolerance-call", P + "units.py", "                return (self.value == v.convert(self.units.sys).value)", "                return math.isclose(self.value, v.convert(self.units.sys).value)", "C05.CMP"),
    ("C06", "eq3-drops-quantity", P + "units.py", "                self.time     == v[\"time\"] and\n                self.quantity == v[\"quantity\"]", "                self.time     == v[\"time\"]", "C06.EQ3"),
    ("C07", "poisson-shifted-mean", E + "SimulationAlgorithm3DBase.hpp", "        return std::poisson_distribution<int>(lambda)(rng);", "        return std::poisson_distribution<int>(lambda+0.5)(rng);", "C07.TAU"),
    ("C08", "setup-writes-script-seed", P + "librdengine.py", "        units_system = script.units_system.copy()\n", "        units_system = script.units_system.copy()\n        script.rng_seed = int(script.rng_seed)\n", "C08.PY-PURE"),
    ("C12", "state-key-conditional", P + "rdsystem.py", "        \"chemostats\" : array_to_list(rds.chemostats)\n        }\n", "        }\n    if len(rds.chemostats) > 0 :\n        d[\"chemostats\"] = array_to_list(rds.chemostats)\n", "C12.COND-KEY"),
    ("C14", "count-add-without-update", E + "engine.cpp", "            mesh_x_sto[i*n_species+s]++;\n            delta_count++;", "            if(mesh_x[i*n_species+s]>1) mesh_x_sto[i*n_species+s]++;\n            delta_count++;", "C14.COUNT"),
    ("C16", "uncg-traj-drops-option", P + "coarsegrain.py", "        engine_option = trajectory.engine_option,\n", "", "C16.UNCG-TRAJ"),
    ("C16", "cgscript-resets-seed", P + "simulate.py", "        cgscript.system = coarsegrain_system(cgscript.system, cgmap)\n", "        cgscript.system = coarsegrain_system(cgscript.system, cgmap)\n        cgscript.rng_seed = None\n", "C16.SCRIPT"),
    ("C19", "sides-split-on-arrow-blank", P + "rdnetwork.py", "        sides = string.split('->')", "        sides = string.split(' -> ')", "C19.ACCUM"),
    ("C20", "itemdim-check-after-extract", P + "units.py", "                        if self._value[i].units.dim != self.units.dim :\n                            raise ValueError(\"units dimensions of item \"+str(i)+\" does not match the UnitArray units.\")\n", "", "C20.ITEMDIM"),
    ("C17", "truthy-position", P + "rdoutput.py", "        if isnone(species) :", "        if not species :", "C17.TRUTH"),
    ("C13", "lossy-density", P + "rdsystem.py", "        state[i] = (cell_species_density * cell_vol.get_at(i)).convert(units_system).value", "        state[i] = round((cell_species_density * cell_vol.get_at(i)).convert(units_system).value, 9)", "C13.LOSSY"),
    ("C06", "convert-in-place", P + "units.py", "    return value*compute_conversion_factor(su_src, su_dst, sdim)", "    value *= compute_conversion_factor(su_src, su_dst, sdim)\n    return value", "C06.PURE"),
    # ---- rules added in round 3
    ("C07", "wait-from-constant", E + "GillespieGraph.hpp", "            dt = log(1/uiud(rng))/a0;", "            dt = 1/a0;", "C07.DRAWS"),
    ("C04", "ctor-label-from-argument", P + "units.py", "            self.value = value.value\n            self.units = value.units", "            self.value = value.value\n            self.units = units", "C04.CTOR"),
    ("C06", "convert-args-swapped", P + "units.py", "    return UnitValue(convert_value(v.value, v.units.sys, su_dst, v.units.dim), Units(su_dst, v.units.dim))", "    return UnitValue(convert_value(v.value, su_dst, v.units.sys, v.units.dim), Units(su_dst, v.units.dim))", "C06.ARGS"),
    ("C03", "copy-through-ctor-incomplete", P + "rdsystem.py", "        return cpy.deepcopy(self)\n    \ndef rdsystem_from_dict", "        return RDSystem(self.network, self.space, state=self.state)\n    \ndef rdsystem_from_dict", "C03.COPY"),
    ("C17", "query-memoises", P + "rdoutput.py", "        return len(self.t)", "        self._n = len(self.t)\n        return self._n", "C17.QUERY"),
    ("C12", "data-file-by-stem", P + "rdoutput.py", "    data_path = filepath.remove_extension_if_existing(path, \".json\") + \"_data.npy\"", "    data_path = path.rsplit(\".\", 1)[0] + \"_data.npy\"", "C12.FILEREF"),
    ("C18", "sign-carried", P + "units.py", "        if b[0] == \"/\" :\n            b[2] = -b[2]", "        if b[0] == \"/\" :\n            neg = True\n        if neg :\n            b[2] = -b[2]", "C18.EXPSIGN"),
    ("C20", "synonyms-against-first-only", P + "value_processing.py", "            if k in s :\n                synonyms_found.append(k)\n        if len(synonyms_found)>1 : ", "            if k in s[1:] :\n                synonyms_found.append(k)\n        if len(synonyms_found)>1 : ", "C20.SYNONYMS"),
    ("C14", "gsd-args-swapped", E + "engine.cpp", "        n_meshes,\n        n_species,\n        seed);", "        n_species,\n        n_meshes,\n        seed);", "C14.ARGS"),
    ("C13", "chemostats-interleaved", P + "rdsystem.py", "    return chstt\n\nclass RDSystem", "    return chstt.reshape((len(network.species), space.size())).T.flatten()\n\nclass RDSystem", "C13.CONCAT"),
    # ---- C13
    ("C13", "state-index-cell-major", P + "rdsystem.py", "        return species_index * self.space.size() + cell_index", "        return cell_index * self.network.nspecies() + species_index", "C13.INDEX"),
    ("C13", "state-not-converted", P + "rdsystem.py", "        state[i] = (cell_species_density * cell_vol.get_at(i)).convert(units_system).value", "        state[i] = (cell_species_density * cell_vol.get_at(i)).value", "C13.TAG"),
    ("C13", "fallback-order", P + "value_processing.py", "        if environment in list(value) : \n            return value[environment]\n        elif \"default\" in list(value) :\n            return value[\"default\"]",
     "        if \"default\" in list(value) :\n            return value[\"default\"]\n        elif environment in list(value) : \n            return value[environment]", "C13.ENV"),
    ("C13", "env-of-other-cell", P + "rdsystem.py", "            environment = network.environments[cell_env[i]], \n            default = UnitValue(0, \"molecule/µm3\"))", "            environment = network.environments[cell_env[0]], \n            default = UnitValue(0, \"molecule/µm3\"))", "C13.CONCAT"),
    ("C13", "setter-other-entry", P + "rdsystem.py", "        self._chemostats[state_index] = int(value)", "        self._chemostats[self.space.get_cell_index(position)] = int(value)", "C13.INDEX"),
    # ---- C17
    ("C17", "reshape-cell-species", P + "rdoutput.py", "return UnitArray(self.data.value.reshape((self.nsamples(), self.nspecies(), self.ncells()))[:,species_index,cell_index]", "return UnitArray(self.data.value.reshape((self.nsamples(), self.ncells(), self.nspecies()))[:,cell_index,species_index]", "C17.AXES"),
    ("C17", "tie-to-later", P + "rdoutput.py", "                if dt0 <= dt1 :", "                if dt0 < dt1 :", "C17.TILING"),
    ("C17", "point-stride-nsamples", P + "rdoutput.py", "sample_index * self.nspecies()*self.ncells() + species_index*self.ncells() + cell_index", "sample_index * self.nspecies()*self.ncells() + species_index*self.nsamples() + cell_index", "C17.AXES"),
    ("C17", "query-time-not-converted", P + "rdoutput.py", "        t = UnitValue(t, self.t.units, convert=True)", "        t = UnitValue(t, self.t.units, convert=False)", "C17.UNITS"),
    ("C17", "infeq-boundary", P + "rdoutput.py", "        if t < self.t.get_at(0) :\n            return None", "        if t <= self.t.get_at(0) :\n            return None", "C17.TILING"),
    # ---- C18
    ("C18", "label-with-digit", P + "units.py", "\"volume\"  : [\"kL\",", "\"volume\"  : [\"k2L\",", "C18.ALPHABET"),
    ("C18", "u-replacement-dropped", P + "units.py", "    s = s.replace(\"uL\", \"µL\")\n", "", "C18.MICRO"),
    ("C18", "printer-joins-with-star", P + "units.py", "                out += \".\"", "                out += \"*\"", "C18.PRINT"),
    # ---- C19
    ("C19", "order-reads-products", P + "rdnetwork.py", "        for k in list(self.substrates) :\n            o += self.substrates[k]", "        for k in list(self.products) :\n            o += self.products[k]", "C19.SIDES"),
    ("C19", "kf-dims-3n-2", P + "rdnetwork.py", "        return UnitsDimensions(space=-3+3*count, time=-1, quantity=1-count)\n\n    def kr_units_dimensions", "        return UnitsDimensions(space=-2+3*count, time=-1, quantity=1-count)\n\n    def kr_units_dimensions", "C19.DIMS"),
    ("C19", "overwrite-repeated-label", P + "rdnetwork.py", "                        d[label] += coef", "                        d[label] = coef", "C19.ACCUM"),
    ("C19", "split-reverse-keeps-kf", P + "rdnetwork.py", "            kf = self.kr,", "            kf = self.kf,", "C19.SPLIT"),
    ("C19", "K-inverted-per-env", P + "rdnetwork.py", "                    r[i] = vf/vr", "                    r[i] = vr/vf", "C19.K"),
    ("C19", "K-zero-test-on-kf", P + "rdnetwork.py", "                if vr.value == 0:", "                if vf.value == 0:", "C19.K"),
    ("C19", "K-scalar-no-zero-test", P + "rdnetwork.py", "            if self.kr.value == 0:", "            if self.kr.value is None:", "C19.K"),
    ("C19", "sto-matrix-transposed", P + "librdengine.py", "            sto[s*n_reactions+r] = reactions[r].dsto(species_labels)[s]", "            sto[r*n_species+s] = reactions[r].dsto(species_labels)[s]", "C19.MATRIX"),
    # ---- C20
    ("C20", "reader-skips-key-check", P + "rdnetwork.py", "    d = valproc.process_input_dict_keys(d, [\n                [\"species\"],", "    valproc.process_input_dict_keys({}, [\n                [\"species\"],", "C20.KEYS"),
    ("C20", "setter-wrong-dimension", P + "rdgraphspace.py", "        self._surface = UnitValue(v, Units(sys=self.units_system, dim=surface_units_dimensions()), convert=False)", "        self._surface = UnitValue(v, Units(sys=self.units_system, dim=space_units_dimensions()), convert=False)", "C20.DIMS"),
    ("C20", "default-env-accepted", P + "rdnetwork.py", "                if e == \"default\" :\n                    raise ValueError(\"\\\"default\\\" is not a valid environment name.\")\n", "", "C20.ENUM"),
    ("C20", "graph-index-one-sided", P + "rdgraphspace.py", "        if cell_index<0 or cell_index>=self.size() :", "        if cell_index>=self.size() :", "C20.POS-ENT"),
    ("C20", "env-check-one-sided", P + "rdsystem.py", "            if int(e)<0 or int(e)>=self.network.nenvironments() :", "            if int(e)>=self.network.nenvironments() :", "C20.EXTIDX"),
    ("C20", "edge-check-removed", P + "rdgraphspace.py", "            if edge.i<0 or edge.i>=len(nodes) or edge.j<0 or edge.j>=len(nodes) :", "            if False :", "C20.EXTIDX"),
    ("C20", "position-ignored", P + "rdgridspace.py", "        position_index = self.get_cell_index(position)\n        return self.cell_env[position_index]", "        return self.cell_env[int(position)]", "C20.POS"),
    ("C20", "mandatory-label-optional", P + "rdnetwork.py", "    else : raise ValueError(\"missing species label.\")", "    else : da[\"label\"] = None", "C20.MAND"),
    ("C20", "policy-accepts-floor", P + "rdscript.py", "[\"auto\", \"none\", \"Poisson\", \"redist\"]:", "[\"auto\", \"none\", \"Poisson\", \"redist\", \"floor \"]:", "C20.ENUM"),
    # ---- C01
    ("C01", "volume-exponent-q-minus-1", E + "SimulationAlgorithm3DBase.hpp", "pow(mesh_vol,1-q);", "pow(mesh_vol,q-1);", "C01.DIM"),
    ("C01", "kd-without-edge-square", E + "SimulationAlgorithm3DBase.hpp", "mesh_kd[i*n_species*6 + s*6+ n] = Dij/(mesh_edge*mesh_edge);", "mesh_kd[i*n_species*6 + s*6+ n] = Dij/(mesh_edge);", "C01.DIM"),
    ("C01", "surface-distance-swapped", E + "SimulationAlgorithmGraphBase.hpp", "mesh_kd_out[i][s*mesh_neighbor_n[i]+n] = Dij * mesh_neighbor_sfc[i][n] / (mesh_vol[i] * mesh_neighbor_dst[i][n]);", "mesh_kd_out[i][s*mesh_neighbor_n[i]+n] = Dij * mesh_neighbor_dst[i][n] / (mesh_vol[i] * mesh_neighbor_sfc[i][n]);", "C01.DIM"),
    ("C01", "arithmetic-mean-in-engine", E + "SimulationAlgorithmGraphBase.hpp", "                      Dij = (hi+hj)/(hi/Di + hj/Dj);", "                      Dij = (hi*Di+hj*Dj)/(hi + hj);", "C01.SIB"),
    ("C01", "kinetics-grid-factor", P + "kinetics.py", "            k = 2/(h**2 * (1/Di + 1/Dj))", "            k = 1/(h**2 * (1/Di + 1/Dj))", "C01.SIB"),
    ("C01", "zero-guard-dropped", E + "SimulationAlgorithm3DBase.hpp", "                    if(Di!=0 && Dj!=0)", "                    if(Di!=0)", "C01.SIB"),
    ("C01", "k-table-transposed-reader", E + "SimulationAlgorithmGraphBase.hpp", "k[mesh_env[i]*n_reactions+r]*pow(mesh_vol[i],1-q);", "k[r*n_env+mesh_env[i]]*pow(mesh_vol[i],1-q);", "C01.LAYOUT"),
    ("C01", "D-builder-transposed", P + "librdengine.py", "            D[s*n_env+e] = valproc.get_value_in_env(", "            D[e*n_species+s] = valproc.get_value_in_env(", "C01.LAYOUT"),
    ("C01", "euler-in-place", E + "Euler3D.hpp", "                  mesh_dxdt[i*n_species+s] -= DiffusionRateDifference(i, s, n);", "                  { mesh_dxdt[i*n_species+s] -= DiffusionRateDifference(i, s, n); mesh_x[i*n_species+s] += 0; }", "C01.PHASE"),
    ("C01", "dxdtf-volume-exponent", P + "rdsystem.py", "            k_r *= vol**(1-r.order())", "            k_r *= vol**(r.order()-1)", "C01.PY"),
    ("C01", "env-by-index", P + "rdsystem.py", "            environment = network.environments[cell_env[i]], \n            default = UnitValue(0, \"molecule/µm3\"))", "            environment = cell_env[i], \n            default = UnitValue(0, \"molecule/µm3\"))", "C01.ENV"),
    ("C01", "reaction-rate-wrong-sub", E + "SimulationAlgorithm3DBase.hpp", "            r *= pow(mesh_x[mesh_index*n_species+s], sub[s*n_reactions+reaction_index]);", "            r *= pow(mesh_x[mesh_index*n_species+s], sto[s*n_reactions+reaction_index]);", "C01.PHASE"),
    # ---- C04
    ("C04", "k-not-converted", P + "librdengine.py", "UnitValue(0, Units(units_system, r.kf_units_dimensions()))).convert(units_system).value)", "UnitValue(0, Units(units_system, r.kf_units_dimensions()))).value)", "C04.BOUNDARY"),
    ("C04", "time-step-in-script-units", P + "librdengine.py", "            #time_step\n                ctypes.c_double(script.time_step.convert(units_system).value),\n                \n            #seed\n                ctypes.c_int(script.rng_seed),\n\n            #init_state_processing\n                ctypes.c_char_p(script.init_state_processing.encode()),\n                                \n", "            #time_step\n                ctypes.c_double(script.time_step.value),\n                \n            #seed\n                ctypes.c_int(script.rng_seed),\n\n            #init_state_processing\n                ctypes.c_char_p(script.init_state_processing.encode()),\n                                \n", "C04.BOUNDARY"),
    ("C04", "output-in-script-units", P + "librdengine.py", "                             sys=self._units_system ,\n                             dim=quantity_units_dimensions()),", "                             sys=self._script.units_system ,\n                             dim=quantity_units_dimensions()),", "C04.BOUNDARY"),
    ("C04", "child-inherits-parent", P + "rdnetwork.py", "da[\"species\"] = [species_from_dict(s, da[\"units_system\"]) for s in d[\"species\"]]", "da[\"species\"] = [species_from_dict(s, parent_units_system) for s in d[\"species\"]]", "C04.INHERIT"),
    ("C04", "setter-default-system", P + "rdgridspace.py", "            v, \n            self.units_system, \n            volume_units_dimensions(),", "            v, \n            UnitsSystem(), \n            volume_units_dimensions(),", "C04.OWNER"),
    ("C04", "dimensioned-constant", E + "Euler3D.hpp", "                mesh_x[i*n_species+j] += mesh_dxdt[i*n_species+j]*dt;", "                mesh_x[i*n_species+j] += mesh_dxdt[i*n_species+j]*dt + dt;", "C04.HOMOG"),
    ("C04", "state-not-converted", P + "rdsystem.py", "            state = np.concatenate((state, state_dict[s.label].convert(units_system).value))", "            state = np.concatenate((state, state_dict[s.label].value))", "C04.STATE"),
    ("C04", "override-after-use", P + "librdengine.py", "        if self._requires_molecules : \n            units_system.quantity = \"molecule\"\n            \n        self._units_system = units_system", "        self._units_system = units_system.copy()\n        if self._requires_molecules : \n            units_system.quantity = \"molecule\"", "C04.BOUNDARY"),
    ("C04", "inherit-means-default", P + "value_processing.py", "        elif v==\"inherit\" :\n            return parent_units_system", "        elif v==\"inherit\" :\n            return UnitsSystem()", "C04.INHERIT"),
    # ---- C02
    ("C02", "one-sided-move", E + "TauLeap3D.hpp", "                    if(! mesh_chstt[j*n_species+s])\n                        {\n                        mesh_x[j*n_species+s] += mesh_nd[i*6*n_species+s*6+n];\n                        }", "", "C02.PAIR"),
    ("C02", "unequal-amounts", E + "TauLeapGraph.hpp", "                        mesh_x[j*n_species+s] += mesh_nd[i][s*mesh_neighbor_n[i]+n];", "                        mesh_x[j*n_species+s] += mesh_nd[i][s*mesh_neighbor_n[i]];", "C02.PAIR"),
    ("C02", "wrong-destination", E + "Gillespie3D.hpp", "        int j = mesh_neighbors[mesh_index*6+direction];", "        int j = mesh_neighbors[mesh_index*6+opposed_direction[direction]];", "C02.PAIR"),
    ("C02", "species-dependent-firing", E + "TauLeap3D.hpp", "mesh_x[i*n_species+j] += sto[j*n_reactions+r]*mesh_nr[i*n_reactions+r];", "mesh_x[i*n_species+j] += sto[j*n_reactions+r]*mesh_nr[i*n_reactions+j];", "C02.STO"),
    ("C02", "flux-not-opposed", E + "SimulationAlgorithm3DBase.hpp", "DiffusionRate(mesh_neighbors[src_mesh_index*6+direction], species_index, opposed_direction[direction]);", "DiffusionRate(mesh_neighbors[src_mesh_index*6+direction], species_index, direction);", "C02.ANTISYM"),
    ("C02", "kd-in-own-volume", E + "SimulationAlgorithmGraphBase.hpp", "mesh_kd_in [i][s*mesh_neighbor_n[i]+n] = Dij * mesh_neighbor_sfc[i][n] / (mesh_vol[j] * mesh_neighbor_dst[i][n]);", "mesh_kd_in [i][s*mesh_neighbor_n[i]+n] = Dij * mesh_neighbor_sfc[i][n] / (mesh_vol[i] * mesh_neighbor_dst[i][n]);", "C02.ANTISYM"),
    ("C02", "new-state-writer", E + "SimulationAlgorithmGraphBase.hpp", "    void CheckTMax()\n      {", "    void CheckTMax()\n      {\n      if(t<0) mesh_x[0] = 0;", "C02.WRITERS"),
    # ---- C07
    ("C07", "propensity-x-squared", E + "SimulationAlgorithm3DBase.hpp", "                    a *= (mesh_x[mesh_index*n_species+s]-q);", "                    a *= (mesh_x[mesh_index*n_species+s]);", "C07.PROP"),
    ("C07", "two-events", E + "Gillespie3D.hpp", "                        ApplyReaction(i, j);\n                        break;", "                        ApplyReaction(i, j);", "C07.ONE-EVENT"),
    ("C07", "search-shorter-than-sum", E + "Gillespie3D.hpp", "                    for(int n=0; n<6; n++)\n                        {\n                        a_cumul += mesh_ad", "                    for(int n=0; n<5; n++)\n                        {\n                        a_cumul += mesh_ad", "C07.PARTITION"),
    ("C07", "diffusion-moves-two", E + "GillespieGraph.hpp", "            mesh_x[j*n_species+species_index] += 1;", "            mesh_x[j*n_species+species_index] += 2;", "C07.UNIT-MOVE"),
    ("C07", "poisson-mean-without-dt", E + "TauLeap3D.hpp", "mesh_nr[i*n_reactions+r] = Poisson(ReactionProp(i, r)*dt);", "mesh_nr[i*n_reactions+r] = Poisson(ReactionProp(i, r));", "C07.TAU"),
    ("C07", "a0-misses-diffusion", E + "GillespieGraph.hpp", "                a0 += mesh_ad[i][s*mesh_neighbor_n[i]+n];\n", "", "C07.PARTITION"),
    ("C07", "decrement-other-species", E + "Gillespie3D.hpp", "            mesh_x[mesh_index*n_species+species_index] -= 1;", "            mesh_x[mesh_index*n_species] -= 1;", "C07.SRC-DEC"),
    ("C07", "wrong-volume-exponent", E + "SimulationAlgorithmGraphBase.hpp", "pow(mesh_vol[i],1-q);", "pow(mesh_vol[i],q-1);", "C07.DIM"),
    ("C07", "sufficiency-other-reaction", E + "SimulationAlgorithmGraphBase.hpp", "            if (mesh_x[mesh_index*n_species+s] >= sub[s*n_reactions+reaction_index])", "            if (mesh_x[mesh_index*n_species+s] >= sub[s*n_reactions])", "C07.PROP"),
    # ---- C08
    ("C08", "reseed-in-iterate", E + "TauLeap3D.hpp", "        Compute_nevt();\n        Apply_nevt();\n        t += dt;", "        rng = std::mt19937(0);\n        Compute_nevt();\n        Apply_nevt();\n        t += dt;", "C08.RNG"),
    ("C08", "local-static", E + "Gillespie3D.hpp", "        double r = uiud(rng)*a0;", "        static int calls = 0; calls++;\n        double r = uiud(rng)*a0;", "C08.SRC"),
    ("C08", "clock-in-iterate", E + "engine.cpp", "extern \"C\" int engineexport_iterate()\n    {\n    if(global_algo_freed) return 0;\n    bool unfinished = true;", "extern \"C\" int engineexport_iterate()\n    {\n    if(global_algo_freed) return 0;\n    bool unfinished = (std::chrono::system_clock::now().time_since_epoch().count() != 0);", "C08.SRC"),
    ("C08", "random-elsewhere", P + "librdengine.py", "                ctypes.c_int(script.rng_seed),\n\n            #init_state_processing\n                ctypes.c_char_p(script.init_state_processing.encode()),\n                                \n            #option", "                ctypes.c_int(random.randint(0, 10)),\n\n            #init_state_processing\n                ctypes.c_char_p(script.init_state_processing.encode()),\n                                \n            #option", "C08.PY-SEED"),
    ("C08", "init-forgets-field", E + "SimulationAlgorithmGraphBase.hpp", "        this->last_tsi_ratio = -1; // rather than 0, to allow for t0 sampling.\n\n        this->t = 0.0;", "        this->t = 0.0;", "C08.INIT-ALL"),
    ("C08", "driver-samples", E + "engine.cpp", "        else if (global_space_type == 1) unfinished = global_graph_algo->Iterate();\n        if(!unfinished)\n            break;", "        else if (global_space_type == 1) { unfinished = global_graph_algo->Iterate(); global_graph_algo->Sample(); }\n        if(!unfinished)\n            break;", "C08.SLICE"),
    ("C08", "euler-draws", E + "EulerGraph.hpp", "                mesh_x[i*n_species+j] += mesh_dxdt[i*n_species+j]*dt;", "                mesh_x[i*n_species+j] += mesh_dxdt[i*n_species+j]*dt*(1+0*uiud(rng));", "C08.EULER"),
    ("C08", "stale-space-type", E + "engine.cpp", "    global_space_type = 1;\n    int n_meshes = n_nodes;", "    int n_meshes = n_nodes;", "C08.GLOBALS"),
    # ---- C09
    ("C09", "sample-before-step", E + "TauLeapGraph.hpp", "        Compute_nevt();\n        Apply_nevt();\n        t += dt;\n        SamplingStep();", "        SamplingStep();\n        Compute_nevt();\n        Apply_nevt();\n        t += dt;", "C09.ORDER"),
    ("C09", "push-state-only", E + "SimulationAlgorithm3DBase.hpp", "          sampled_t.push_back(t);\n", "", "C09.PAIR-PUSH"),
    ("C09", "policy-codes-swapped", E + "engine.cpp", "    else if(CompareStr(sampling_policy, \"on_iteration\")) sampling_policy_code = 1;\n    else if(CompareStr(sampling_policy, \"on_interval\" )) sampling_policy_code = 2;\n    else if(CompareStr(sampling_policy, \"no_sampling\" )) sampling_policy_code = 3;\n    else return 3;\n\n    // option\n    if      (CompareStr(option, \"gillespie\"))   {global_graph_algo",
     "    else if(CompareStr(sampling_policy, \"on_iteration\")) sampling_policy_code = 2;\n    else if(CompareStr(sampling_policy, \"on_interval\" )) sampling_policy_code = 1;\n    else if(CompareStr(sampling_policy, \"no_sampling\" )) sampling_policy_code = 3;\n    else return 3;\n\n    // option\n    if      (CompareStr(option, \"gillespie\"))   {global_graph_algo", "C09.POLICY-TAB"),
    ("C09", "output-cell-major", E + "engine.cpp", "                  trajectory_data[n*n_meshes*n_species+ s*n_meshes + i] = trajectory_data_vec[n][i*n_species+s];\n                  }\n              }\n          }\n      return 0;\n      }\n    else", "                  trajectory_data[n*n_meshes*n_species+ i*n_species + s] = trajectory_data_vec[n][i*n_species+s];\n                  }\n              }\n          }\n      return 0;\n      }\n    else", "C09.LAYOUT-OUT"),
    ("C09", "flag-not-rearmed", E + "Gillespie3D.hpp", "        sampling_done_this_iteration = false; // reset the flag\n", "", "C09.ONCE"),
    ("C09", "tmax-inclusive", E + "SimulationAlgorithm3DBase.hpp", "      if(t_max>=0 && t>t_max)", "      if(t_max>=0 && t>=t_max)", "C09.HANDLERS"),
    ("C09", "tmax-default-first", P + "rdscript.py", "            return self.t_sample.get_at(len(self.t_sample)-1)", "            return self.t_sample.get_at(0)", "C09.TMAX"),
    ("C09", "switch-handlers-swapped", E + "SimulationAlgorithmGraphBase.hpp", "          case 0 : SampleOnTSample(); break;  //sample on t sample\n          case 1 : Sample(); break;           //sample on iteration", "          case 1 : SampleOnTSample(); break;  //sample on t sample\n          case 0 : Sample(); break;           //sample on iteration", "C09.POLICY-TAB"),
    # ---- C03
    ("C03", "tauleap-guard-deleted", E + "TauLeap3D.hpp", "                    if(! mesh_chstt[j*n_species+s])\n                        {\n                        mesh_x[j*n_species+s] += mesh_nd[i*6*n_species+s*6+n];\n                        }",
     "                    mesh_x[j*n_species+s] += mesh_nd[i*6*n_species+s*6+n];", "C03.GUARD-ID"),
    ("C03", "guard-of-wrong-cell", E + "Gillespie3D.hpp", "        if(!mesh_chstt[j*n_species+species_index])", "        if(!mesh_chstt[mesh_index*n_species+species_index])", "C03.GUARD-ID"),
    ("C03", "guard-of-wrong-species", E + "TauLeapGraph.hpp", "                if(mesh_chstt[i*n_species+j]) continue;", "                if(mesh_chstt[i*n_species+r]) continue;", "C03.GUARD-ID"),
    ("C03", "euler-guard-deleted", E + "EulerGraph.hpp", "              if(mesh_chstt[i*n_species+s]) continue;\n", "", "C03.GUARD-ID"),
    ("C03", "propensity-reads-flag", E + "SimulationAlgorithm3DBase.hpp", "        double a = mesh_kr[mesh_index*n_reactions+reaction_index];\n        for(int s = 0; s<n_species; s++)\n            {",
     "        double a = mesh_kr[mesh_index*n_reactions+reaction_index];\n        for(int s = 0; s<n_species; s++)\n            {\n            if(mesh_chstt[mesh_index*n_species+s]) continue;", "C03.READERS"),
    ("C03", "chemostats-not-transposed", E + "engine.cpp", "          SpeciesFirstToMeshFirstArray(MkVec<int,    int   >(mesh_chstt, n_meshes*n_species),\n                                       n_species,\n                                       n_meshes), //species first to mesh first\n          MkVec<int,    int   >(mesh_env, n_meshes),\n          mesh_vol,",
     "          MkVec<int,    int   >(mesh_chstt, n_meshes*n_species),\n          MkVec<int,    int   >(mesh_env, n_meshes),\n          mesh_vol,", "C03.TRANSPOSE"),
    ("C03", "kinetics-flag-by-cell", P + "kinetics.py", "    if apply_chemostats and system.get_chemostat(species, position):\n    \treturn UnitValue(0, \"molecule/s\").convert(units_system)\n    \n    return d.convert(units_system)\n\ndef _compute_dspeciesdt_graph",
     "    if apply_chemostats and system.chemostats[system.space.get_cell_index(position)]:\n    \treturn UnitValue(0, \"molecule/s\").convert(units_system)\n    \n    return d.convert(units_system)\n\ndef _compute_dspeciesdt_graph", "C03.PY-KIND"),
    ("C03", "apply-reaction-flag-by-species", P + "rdsystem.py", "            if chemostats[index] == 0 :", "            if chemostats[i] == 0 :", "C03.FLAG-ID"),
    ("C03", "dxdtf-factor-of-other-species", P + "rdsystem.py", "                dxdt[s] *= chemostats[s]", "                dxdt[s] *= chemostats[0]", "C03.FLAG-ID"),
    # ---- C05
    ("C05", "sum-drops-conversion", P + "units.py",
     "return UnitValue(self.value + v.convert(self.units.sys).value, self.units)",
     "return UnitValue(self.value + v.value, self.units)", "C05.TAG"),
    ("C05", "product-keeps-self-units", P + "units.py",
     "            return UnitValue(self.value * v.value, self.units.multiply(v.units))",
     "            return UnitValue(self.value * v.value, self.units)", "C05.TAG"),
    ("C05", "array-modulo-no-dimcheck", P + "units.py",
     "            if self.units.dim != mod.units.dim :\n                raise ValueError(\"modulus mod must have the same units dimensions as self.\")\n            if len(self) != len(mod) :",
     "            if len(self) != len(mod) :", "C05.TAG"),
    ("C05", "invert-keeps-units", P + "units.py",
     "        return UnitValue(1/self.value, self.units.invert())", "        return UnitValue(1/self.value, self.units)", "C05.TAG"),
    ("C05", "returned-exception", P + "units.py",
     "            raise ValueError(\"addition of two UnitValue with different units dimensions is not supported.\")",
     "            return ValueError(\"addition of two UnitValue with different units dimensions is not supported.\")", "C05.RAISE"),
    ("C05", "array-sum-no-lencheck", P + "units.py",
     "            if len(self) != len(v) :\n                raise ValueError(\"operations between UnitArrays require both the have the same length.\")\n            v = v.convert(self.units.sys)\n            return UnitArray([self.value[i] + v.value[i]",
     "            v = v.convert(self.units.sys)\n            return UnitArray([self.value[i] + v.value[i]", "C05.LEN"),
    ("C05", "multiply-subtracts-exponents", P + "units.py",
     "            sdim[k] = self.dim[k] + u.dim[k]", "            sdim[k] = self.dim[k] - u.dim[k]", "C05.UNITS-OPS"),
    # ---- C10
    ("C10", "finalize-forgets-flag", E + "engine.cpp", "    global_algo_freed = true;\n", "", "C10.FINALIZE"),
    ("C10", "iterate-without-liveness", E + "engine.cpp",
     "extern \"C\" int engineexport_iterate()\n    {\n    if(global_algo_freed) return 0;\n", "extern \"C\" int engineexport_iterate()\n    {\n", "C10.LIVE"),
    ("C10", "setup-keeps-status", P + "librdengine.py", "        self._simulation_unfinished = 1\n        \n        units_system",
     "        \n        units_system", "C10.RESET"),
    ("C10", "iterate-ignores-complete", E + "Euler3D.hpp", "        if(complete)\n          return false;\n", "", "C10.STICKY"),
    ("C10", "iterate-clears-complete", E + "TauLeap3D.hpp", "        Compute_nevt();\n        Apply_nevt();\n        t += dt;",
     "        complete = false;\n        Compute_nevt();\n        Apply_nevt();\n        t += dt;", "C10.STICKY"),
    ("C10", "getter-writes-state", E + "SimulationAlgorithm3DBase.hpp", "    double GetT()\n        {\n        return t;",
     "    double GetT()\n        {\n        t += 0;\n        return t;", "C10.FETCH"),
    ("C10", "uncounted-loop", E + "Gillespie3D.hpp", "                for(int j=0; j<n_reactions; j++)\n                    {\n                    a_cumul += mesh_ar[i*n_reactions+j];",
     "                for(int j=0; j<n_reactions; )\n                    {\n                    a_cumul += mesh_ar[i*n_reactions+j];", "C10.LOOPS"),
    ("C10", "new-global", E + "engine.cpp", "bool global_algo_freed = true;", "bool global_algo_freed = true;\nint global_call_count = 0;\nextern \"C\" int engineexport_calls(){ return ++global_call_count; }", "C10.ISOLATION"),
    # ---- C11
    ("C11", "inclusive-loop-bound", E + "Euler3D.hpp", "            for(int j=0; j<n_species; j++)\n                {\n                mesh_x[i*n_species+j] +=",
     "            for(int j=0; j<=n_species; j++)\n                {\n                mesh_x[i*n_species+j] +=", "C11.BOUNDS"),
    ("C11", "wrong-resize", E + "TauLeap3D.hpp", "        this->mesh_nd.resize(6*n_species*n_meshes);", "        this->mesh_nd.resize(6*n_meshes);", "C11.BOUNDS"),
    ("C11", "wrong-stride", E + "Gillespie3D.hpp", "              mesh_ar[i*n_reactions+r] = ReactionProp(i, r);", "              mesh_ar[i*n_species+r] = ReactionProp(i, r);", "C11.BOUNDS"),
    ("C11", "guard-order", E + "SimulationAlgorithm3DBase.hpp", "while(sample_pos<n_samples && t>=t_samples[sample_pos])", "while(t>=t_samples[sample_pos] && sample_pos<n_samples)", "C11.GUARD-ORDER"),
    ("C11", "poisson-unguarded", E + "SimulationAlgorithmGraphBase.hpp", "        if(!(lambda>0)) return 0;\n", "", "C11.POISSON-PRE"),
    ("C11", "sentinel-unguarded", E + "Euler3D.hpp", "                if(mesh_neighbors[i*6+n] != -1)\n                  mesh_dxdt[i*n_species+s] -= DiffusionRateDifference(i, s, n);",
     "                mesh_dxdt[i*n_species+s] -= DiffusionRateDifference(i, s, n);", "C11.SENTINEL"),
    ("C11", "count-table-unguarded", E + "TauLeap3D.hpp", "                  if(mesh_neighbors[i*6+n] != -1)\n                    mesh_nd[i*6*n_species+s*6+n] = Poisson(DiffusionProp(i, s, n)*dt);\n                  else\n                    mesh_nd[i*6*n_species+s*6+n] = 0;",
     "                  mesh_nd[i*6*n_species+s*6+n] = Poisson(DiffusionProp(i, s, n)*dt);", "C11.SENTINEL"),
    ("C11", "ffi-arg-dropped", P + "librdengine.py", "            #seed\n                ctypes.c_int(script.rng_seed),\n\n            #init_state_processing\n                ctypes.c_char_p(script.init_state_processing.encode()),\n\n            #option\n                ctypes.c_char_p(self.option.encode())\n                )\n\n        if   res == 1 :\n            raise Exception(\"Invalid option argument : \\\"\"+self.option+\"\\\".\")\n        elif res == 2 :\n            raise Exception(\"Invalid boundary conditions.\")\n            \n    def _setup_grid",
     "            #init_state_processing\n                ctypes.c_char_p(script.init_state_processing.encode()),\n\n            #option\n                ctypes.c_char_p(self.option.encode())\n                )\n\n        if   res == 1 :\n            raise Exception(\"Invalid option argument : \\\"\"+self.option+\"\\\".\")\n        elif res == 2 :\n            raise Exception(\"Invalid boundary conditions.\")\n            \n    def _setup_grid", "C11.FFI"),
    ("C11", "ffi-wrong-ctype", P + "librdengine.py", "            #cell_vol\n                ctypes.c_double(script.system.space.cell_vol.convert(units_system).value),",
     "            #cell_vol\n                ctypes.c_int(script.system.space.cell_vol.convert(units_system).value),", "C11.FFI"),
    ("C11", "ffi-short-buffer", P + "librdengine.py", "        data_len = n_sample*self._script.system.state_size()", "        data_len = n_sample*self._script.system.space.size()", "C11.FFI-EXTENT"),
    ("C11", "ragged-unpaired", E + "SimulationAlgorithmGraphBase.hpp", "          mesh_neighbor_n[edge_j[i]]++;\n", "", "C11.RAGGED-PAIR"),
    ("C11", "nonvirtual-dtor", E + "SimulationAlgorithmGraphBase.hpp", "    virtual ~SimulationAlgorithmGraphBase()", "    ~SimulationAlgorithmGraphBase()", "C11.DTOR"),
    # ---- C12
    ("C12", "writer-drops-key", P + "rdnetwork.py", "         \"chstt\" : s.chstt,\n", "", "C12.SCHEMA"),
    ("C12", "reader-renames-key", P + "rdgridspace.py", "    if \"cell_volume\"         in d : da[\"cell_vol\"] = d[\"cell_volume\"]", "    if \"cell_vol\"         in d : da[\"cell_vol\"] = d[\"cell_vol\"]", "C12.SCHEMA"),
    ("C12", "nested-file-without-base", P + "rdsystem.py", "            rdn = filepath.get_path_with_base(rdn, base_path)\n", "", "C12.FILEREF"),
    ("C12", "child-without-base", P + "rdscript.py", "            rds = rdsystem_from_dict(rds, da[\"units_system\"], base_path)", "            rds = rdsystem_from_dict(rds, da[\"units_system\"])", "C12.FILEREF"),
    ("C12", "unresolved-name", P + "rdsystem.py", "        \"chemostats\" : array_to_list(rds.chemostats)", "        \"chemostats\" : array_to_list(system.chemostats)", "C12.NAMES"),
    ("C12", "writer-wrong-type-tag", P + "rdgraphspace.py", "    d = { \"type\" : \"graph\",", "    d = { \"type\" : \"Graph\",", "C12.DISPATCH"),
    # ---- C14
    ("C14", "poisson-untransposed", E + "engine.cpp", "      std::mt19937 rng(seed);\n      mesh_x = SpeciesFirstToMeshFirstArray(MkVec<double, double>(mesh_state, n_meshes*n_species), n_species, n_meshes);",
     "      std::mt19937 rng(seed);\n      mesh_x = MkVec<double, double>(mesh_state, n_meshes*n_species);", "C14.TRANSPOSE"),
    ("C14", "auto-always-redist", E + "engine.cpp", "    else if(CompareStr(init_state_processing, \"redist\") || (is_stochastic && CompareStr(init_state_processing, \"auto\")))",
     "    else if(CompareStr(init_state_processing, \"redist\") || CompareStr(init_state_processing, \"auto\"))", "C14.DISPATCH"),
    ("C14", "auto-order-swapped", E + "engine.cpp", "    else if(CompareStr(init_state_processing, \"redist\") || (is_stochastic && CompareStr(init_state_processing, \"auto\")))",
     "    else if(CompareStr(init_state_processing, \"redist\") || (!is_stochastic && CompareStr(init_state_processing, \"auto\")))", "C14.DISPATCH"),
    ("C14", "mode-renamed-in-python", P + "rdscript.py", "        if not init_state_processing in [\"auto\", \"none\", \"Poisson\", \"redist\"]:", "        if not init_state_processing in [\"auto\", \"none\", \"poisson\", \"redist\"]:", "C14.MODES"),
    ("C14", "local-rng-unseeded", E + "engine.cpp", "  std::mt19937 rng(seed);\n  std::uniform_real_distribution<double> uiud(0, 1);", "  std::mt19937 rng(12345);\n  std::uniform_real_distribution<double> uiud(0, 1);", "C14.SEED"),
    # ---- C15
    ("C15", "bounds-or", P + "rdgridspace.py", "            return (int(position)>=0 and int(position)<self.size())", "            return (int(position)>=0 or int(position)<self.size())", "C15.ENT"),
    ("C15", "tuple-bounds-wrong-extent", P + "rdgridspace.py", "                    int(position[1])<self.h and", "                    int(position[1])<self.w and", "C15.ENT"),
    ("C15", "wrap-y-with-w", E + "SimulationAlgorithm3DBase.hpp", "        if (boundary_conditions[1] == 1) yn = (h+yn)%h;", "        if (boundary_conditions[1] == 1) yn = (w+yn)%w;", "C15.AXIS"),
    ("C15", "neighbors-offbyone", P + "rdgridspace.py", "        if x<self.w-1 : neighbors.append", "        if x<self.w : neighbors.append", "C15.DISP"),
    ("C15", "opposed-direction-broken", E + "SimulationAlgorithm3DBase.hpp", "std::vector<int>{1, 0, 3, 2, 5, 4}", "std::vector<int>{1, 0, 2, 3, 5, 4}", "C15.DISP"),
    ("C15", "index-stride-swapped", P + "rdgridspace.py", "            return int(position[0]) + int(position[1])*self.w + int(position[2])*self.w*self.h", "            return int(position[0]) + int(position[1])*self.h + int(position[2])*self.w*self.h", "C15.RADIX"),
    ("C15", "g2g-surface-is-edge", P + "coarsegrain.py", "    edge_sfc = edge_dst**2", "    edge_sfc = edge_dst", "C15.G2G"),
    ("C15", "kinetics-wrap-wrong-axis", P + "kinetics.py", "            c[1] = (system.space.h+c[1])%system.space.h", "            c[1] = (system.space.w+c[1])%system.space.w", "C15.AXIS"),
    # ---- C16
    ("C16", "m1-guard-removed", P + "coarsegrain.py", "        if index_map[i] != -1 : \n            nodes[index_map[i]].volume", "        if True : \n            nodes[index_map[i]].volume", "C16.M1"),
    ("C16", "divide-by-other-group", P + "coarsegrain.py", "in_state[n, s, node_index]/len(cg_nodes[node_index])", "in_state[n, s, node_index]/len(cg_nodes[0])", "C16.UNCG"),
    ("C16", "edge-self-loop", P + "coarsegrain.py", "        if i == j : \n            continue\n", "", "C16.EDGE"),
    ("C16", "cg-stride-fine", P + "coarsegrain.py", "                cgstate[s * cgspace.size() + index_map[i]] +=", "                cgstate[s * system.space.size() + index_map[i]] +=", "C16.KIND"),
    ("C16", "flags-not-clamped", P + "coarsegrain.py", "        cgchstt[i] = int(min(cgchstt[i], 1)) ", "        cgchstt[i] = int(cgchstt[i]) ", "C16.CLAMP"),
    ("C16", "validity-check-skipped", P + "coarsegrain.py", "    check_index_map_validity(index_map, space)\n", "", "C16.VALID-FIRST"),
]


def _apply(root, rel, old, new):
    p = os.path.join(root, rel)
    b = open(p, "rb").read()
    crlf = b"\r\n" in b
    s = b.decode("utf-8")
    if crlf:
        s = s.replace("\r\n", "\n")
    if s.count(old) >= 1:
        s = s.replace(old, new, 1)
    else:
        # whitespace-insensitive anchor: the same token sequence with any spacing
        import re
        pat = r"\s*".join(re.escape(t) for t in re.findall(r"\w+|[^\w\s]", old))
        m = re.search(pat, s)
        if not m:
            return False
        s = s[:m.start()] + new.strip("\n").lstrip(" ") + s[m.end():]
    if crlf:
        s = s.replace("\n", "\r\n")
    open(p, "wb").write(s.encode("utf-8"))
    return True


def _copy_repo(dst):
    os.makedirs(dst)
    shutil.copy(os.path.join(REPO, "setup.py"), dst)
    shutil.copytree(os.path.join(REPO, "src"), os.path.join(dst, "src"),
                    ignore=shutil.ignore_patterns("*.so", "__pycache__", "*.egg-info", "*.pyc"))


def run_one(m, keep=False):
    pid, name, rel, old, new, rule = m
    tmp = tempfile.mkdtemp(prefix="sa-mut-")
    try:
        root = os.path.join(tmp, "repo")
        _copy_repo(root)
        if not _apply(root, rel, old, new):
            return (m, "skipped", "anchor text not found in the current tree")
        env = dict(os.environ, SA_REPO=root, SA_EVIDENCE_DIR=os.path.join(tmp, "ev"), PYTHONPATH=VERIF)
        r = subprocess.run([sys.executable, "-m", "sa", "check", pid, "--tier", "quick"], cwd=VERIF, env=env,
                           capture_output=True, text=True, timeout=600)
        fired = set()
        evp = os.path.join(tmp, "ev", "%s.json" % pid)
        if os.path.exists(evp):
            ev = json.load(open(evp))
            for rn, c in ev["coverage"].get("rules", {}).items():
                if c.get("violated"):
                    fired.add(rn)
        if r.returncode == 1 and rule in fired:
            return (m, "caught", ",".join(sorted(fired)))
        if r.returncode == 2:
            return (m, "analysis-error", (r.stdout.strip().splitlines() or ["?"])[0][:200])
        return (m, "missed", "exit %d, rules fired: %s" % (r.returncode, sorted(fired)))
    finally:
        shutil.rmtree(tmp, ignore_errors=True)


def run_for(pid, verbose=True):
    ms = [m for m in MUTANTS if m[0] == pid]
    if not ms:
        print("selftest %s: no mutants registered" % pid)
        return 0
    with ThreadPoolExecutor(max_workers=min(16, len(ms))) as ex:
        res = list(ex.map(run_one, ms))
    caught = [r for r in res if r[1] == "caught"]
    skipped = [r for r in res if r[1] == "skipped"]
    bad = [r for r in res if r[1] in ("missed", "analysis-error")]
    for m, st, info in res:
        print("  selftest %-28s %-14s expected %-18s %s" % (m[1], st, m[5], info))
    print("selftest %s: %d mutants, %d caught, %d skipped, %d not caught" % (pid, len(ms), len(caught), len(skipped),
                                                                           len(bad)))
    # record next to the evidence (informational; the verdict on /repo is the main run's)
    evp = os.path.join(os.environ.get("SA_EVIDENCE_DIR") or os.path.join(VERIF, "evidence"), "%s.json" % pid)
    try:
        ev = json.load(open(evp))
        ev["coverage"]["selftest"] = {"mutants": len(ms), "caught": len(caught), "skipped": len(skipped),
                                      "not_caught": [(r[0][1], r[1], r[2]) for r in bad]}
        json.dump(ev, open(evp, "w"), indent=1)
    except Exception:
        pass
    if bad or len(skipped) * 3 > len(ms):
        print("ANALYSIS-ERROR property=%s checker self-test failed (a mutant was not caught or too many anchors vanished)" % pid)
        return 2
    return 0


if __name__ == "__main__":
    rc = 0
    for pid in sorted({m[0] for m in MUTANTS}) if len(sys.argv) < 2 else sys.argv[1:]:
        rc = max(rc, run_for(pid))
    sys.exit(rc)
