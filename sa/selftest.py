"""Checker self-test (thorough tier): text mutants of the *current* tree (sa/mutants.py), then the stored corpus of
independently written breaking changes and behaviour-preserving refactorings (sa/corpus.py); all on scratch copies."""


def run_for(pid):
    from . import mutants, corpus
    rc = mutants.run_for(pid)
    rc2 = corpus.run_for(pid)
    return max(rc, rc2)
