"""Checker self-test (thorough tier): mutants of the *current* tree on scratch copies; filled in sa/mutants.py."""


def run_for(pid):
    try:
        from . import mutants
    except ImportError:
        print("selftest: no mutant corpus built yet")
        return 0
    return mutants.run_for(pid)
