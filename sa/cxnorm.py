"""Canonicalisation of engine function bodies, after helper inlining and before the rules.

Scalar accumulator promotion.  The pattern

        T acc = init;  ... acc += e; acc -= e'; acc = acc + e''; ...   TABLE[idx] = acc;

(the declaration and the final store in the same block; every other use of `acc` is the target of an assignment /
compound assignment; the variables of `idx` are not assigned in between; TABLE itself is not mentioned in between) is
rewritten to its store-through form

        TABLE[idx] = init; ... TABLE[idx] += e; ...

which is what the engine's own code does and what the rules (two-phase update, stoichiometry terms, chemostat guards)
are written against.  Both forms compute the same table contents when nothing else reads TABLE[idx] in between, which
the "not mentioned" condition guarantees for direct accesses."""
import copy

from .cxfe import kids, strip, walk, subscript, name_of

SCALARS = ("double", "int", "float", "long", "size_t", "unsigned int")


def _refs(n, vid):
    return [x for x in walk(n) if x.get("kind") == "DeclRefExpr" and x.get("referencedDecl", {}).get("id") == vid]


def _assigned_names(nodes):
    out = set()
    for b in nodes:
        for n in walk(b):
            k = n.get("kind")
            tgt = None
            if k == "CompoundAssignOperator" or (k == "BinaryOperator" and n.get("opcode") == "="):
                tgt = strip(kids(n)[0])
            elif k == "UnaryOperator" and n.get("opcode") in ("++", "--"):
                tgt = strip(kids(n)[0])
            if tgt is not None and tgt.get("kind") == "DeclRefExpr":
                out.add(tgt.get("referencedDecl", {}).get("id"))
    return out


def _only_targets(nodes, vid):
    """every reference to vid inside nodes is the direct left operand of an assignment / compound assignment, or the left
    operand of `acc + e` / `acc - e` directly under `acc = ...`"""
    ok_ids = set()
    for b in nodes:
        for n in walk(b):
            k = n.get("kind")
            if k == "CompoundAssignOperator" or (k == "BinaryOperator" and n.get("opcode") == "="):
                l = strip(kids(n)[0])
                if l.get("kind") == "DeclRefExpr" and l.get("referencedDecl", {}).get("id") == vid:
                    ok_ids.add(id(l))
                    if k == "BinaryOperator":
                        r = strip(kids(n)[1])
                        if r.get("kind") == "BinaryOperator" and r.get("opcode") in ("+", "-"):
                            rl = strip(kids(r)[0])
                            if rl.get("kind") == "DeclRefExpr" and rl.get("referencedDecl", {}).get("id") == vid:
                                ok_ids.add(id(rl))
    for b in nodes:
        for x in _refs(b, vid):
            if id(x) not in ok_ids:
                return False
    return True


def _promote_block(blk, log, fq):
    inner = blk.get("inner") or []
    i = 0
    while i < len(inner):
        st = inner[i]
        if st and st.get("kind") == "DeclStmt" and len(kids(st)) == 1 and kids(st)[0].get("kind") == "VarDecl":
            v = kids(st)[0]
            t = v.get("type", {}).get("qualType", "")
            if t in SCALARS and kids(v) and v.get("storageClass") != "static":
                vid = v.get("id")
                # the final store: last statement of the block that mentions v
                users = [j for j in range(i + 1, len(inner)) if inner[j] and _refs(inner[j], vid)]
                if users:
                    q = users[-1]
                    fin = strip(inner[q])
                    if fin.get("kind") == "BinaryOperator" and fin.get("opcode") == "=":
                        lhs, rhs = kids(fin)
                        r = strip(rhs, casts=True)
                        sub = subscript(lhs)
                        if r.get("kind") == "DeclRefExpr" and r.get("referencedDecl", {}).get("id") == vid and \
                                sub is not None and not _refs(lhs, vid):
                            mid = [inner[j] for j in range(i + 1, q) if inner[j]]
                            idx_ids = {x.get("referencedDecl", {}).get("id") for x in walk(sub[1])
                                       if x.get("kind") == "DeclRefExpr"}
                            tname = name_of(sub[0])
                            mentions = any(name_of(x) == tname for b in mid for x in walk(b)
                                           if x.get("kind") in ("MemberExpr", "DeclRefExpr"))
                            if _only_targets(mid, vid) and not (idx_ids & _assigned_names(mid)) and not mentions and tname:
                                def rep(n):
                                    ch = n.get("inner")
                                    if not ch:
                                        return
                                    for k_, c in enumerate(ch):
                                        if not c:
                                            continue
                                        if c.get("kind") == "DeclRefExpr" and c.get("referencedDecl", {}).get("id") == vid:
                                            ch[k_] = copy.deepcopy(lhs)
                                        else:
                                            rep(c)
                                for b in mid:
                                    rep(b)
                                init = kids(v)[-1]
                                inner[i] = {"kind": "BinaryOperator", "opcode": "=", "type": v.get("type", {}),
                                            "range": st.get("range", {}), "inner": [copy.deepcopy(lhs), init]}
                                del inner[q]
                                log.append((fq, v.get("name"), tname))
                                continue
        i += 1
    for c in inner:
        if c:
            _rec(c, log, fq)


def _rec(n, log, fq):
    if n.get("kind") == "CompoundStmt":
        _promote_block(n, log, fq)
        return
    for c in n.get("inner", []) or []:
        if c:
            _rec(c, log, fq)


def _forward_block(blk, log, fq):
    """`const T v = <expr with a call>;  TABLE[idx] = v;  ... v ...`  ->  `TABLE[idx] = <expr>;  ... TABLE[idx] ...`
    (v is read nowhere before the store, TABLE is not written and the variables of idx are not assigned afterwards in the block):
    the value computed once and kept in a local is the table entry it is stored into."""
    inner = blk.get("inner") or []
    i = 0
    while i < len(inner):
        st = inner[i]
        if st and st.get("kind") == "DeclStmt" and len(kids(st)) == 1 and kids(st)[0].get("kind") == "VarDecl":
            v = kids(st)[0]
            t = v.get("type", {}).get("qualType", "")
            has_call = kids(v) and any(x.get("kind") in ("CallExpr", "CXXMemberCallExpr") for x in walk(kids(v)[-1]))
            if t.startswith("const ") and t[6:] in SCALARS and has_call:
                vid = v.get("id")
                q = next((j for j in range(i + 1, len(inner)) if inner[j] and _refs(inner[j], vid)), None)
                if q is not None:
                    fin = strip(inner[q])
                    if fin.get("kind") == "BinaryOperator" and fin.get("opcode") == "=":
                        lhs, rhs = kids(fin)
                        r = strip(rhs, casts=True)
                        sub = subscript(lhs)
                        tname = name_of(sub[0]) if sub is not None else None
                        if tname is None and sub is not None and subscript(sub[0]) is not None:
                            tname = name_of(subscript(sub[0])[0])
                        if r.get("kind") == "DeclRefExpr" and r.get("referencedDecl", {}).get("id") == vid and sub is not None and \
                                tname and not _refs(lhs, vid):
                            rest = [inner[j] for j in range(q + 1, len(inner)) if inner[j]]
                            idx_ids = {x.get("referencedDecl", {}).get("id") for x in walk(lhs) if x.get("kind") == "DeclRefExpr"}
                            writes_t = False
                            for b in rest:
                                for n in walk(b):
                                    k = n.get("kind")
                                    tg = None
                                    if k == "CompoundAssignOperator" or (k == "BinaryOperator" and n.get("opcode") == "="):
                                        tg = strip(kids(n)[0])
                                    elif k == "UnaryOperator" and n.get("opcode") in ("++", "--"):
                                        tg = strip(kids(n)[0])
                                    while tg is not None and subscript(tg) is not None:
                                        tg = strip(subscript(tg)[0])
                                    if tg is not None and name_of(tg) == tname:
                                        writes_t = True
                            if not writes_t and not (idx_ids & _assigned_names(rest)):
                                def rep(n):
                                    ch = n.get("inner")
                                    if not ch:
                                        return
                                    for k_, c in enumerate(ch):
                                        if not c:
                                            continue
                                        if c.get("kind") == "DeclRefExpr" and c.get("referencedDecl", {}).get("id") == vid:
                                            ch[k_] = copy.deepcopy(lhs)
                                        else:
                                            rep(c)
                                for b in rest:
                                    rep(b)
                                fin_inner = fin.get("inner")
                                fin_inner[1] = kids(v)[-1]
                                del inner[i]
                                log.append((fq, v.get("name"), tname + "[..] (forwarded)"))
                                continue
        i += 1
    for c in inner:
        if c:
            _rec2(c, log, fq)


def _alias_block(blk, log, fq):
    """`T & r = TABLE[idx];  ... r ...`  ->  `... TABLE[idx] ...`  (a reference local bound to a table row or element is that
    row: the variables of idx are not assigned in the rest of the block, so both spellings name the same object)"""
    inner = blk.get("inner") or []
    i = 0
    while i < len(inner):
        st = inner[i]
        if st and st.get("kind") == "DeclStmt" and len(kids(st)) == 1 and kids(st)[0].get("kind") == "VarDecl" and kids(kids(st)[0]):
            v = kids(st)[0]
            t = v.get("type", {}).get("qualType", "")
            init = strip(kids(v)[-1], casts=True) if kids(v) else None
            if t.rstrip().endswith("&") and not t.rstrip().endswith("&&") and init is not None and subscript(init) is not None:
                pure = all(x.get("kind") in ("DeclRefExpr", "MemberExpr", "CXXThisExpr", "ImplicitCastExpr", "ParenExpr",
                                             "IntegerLiteral", "CXXOperatorCallExpr", "ArraySubscriptExpr") or
                           (x.get("kind") == "BinaryOperator" and x.get("opcode") in ("+", "-", "*"))
                           for x in walk(init)) and all(
                    name_of(kids(x)[0]) == "operator[]" for x in walk(init) if x.get("kind") == "CXXOperatorCallExpr")
                vid = v.get("id")
                rest = [inner[j] for j in range(i + 1, len(inner)) if inner[j]]
                idx_ids = {x.get("referencedDecl", {}).get("id") for x in walk(init) if x.get("kind") == "DeclRefExpr"}
                if pure and not (idx_ids & _assigned_names(rest)):
                    def rep(n):
                        ch = n.get("inner")
                        if not ch:
                            return
                        for k_, c in enumerate(ch):
                            if not c:
                                continue
                            if c.get("kind") == "DeclRefExpr" and c.get("referencedDecl", {}).get("id") == vid:
                                ch[k_] = copy.deepcopy(init)
                            else:
                                rep(c)
                    for b in rest:
                        rep(b)
                    del inner[i]
                    log.append((fq, v.get("name"), "reference alias written out"))
                    continue
        i += 1
    for c in inner:
        if c:
            _rec3(c, log, fq)


def _rec3(n, log, fq):
    if n.get("kind") == "CompoundStmt":
        _alias_block(n, log, fq)
        return
    for c in n.get("inner", []) or []:
        if c:
            _rec3(c, log, fq)


def _rec2(n, log, fq):
    if n.get("kind") == "CompoundStmt":
        _forward_block(n, log, fq)
        return
    for c in n.get("inner", []) or []:
        if c:
            _rec2(c, log, fq)


def run(tu):
    log = []
    for f in tu.all_fns():
        if f.body is not None:
            _rec3(f.body, log, f.qual)
            _rec(f.body, log, f.qual)
            _rec2(f.body, log, f.qual)
    return log
