"""Canonicalisation of engine function bodies, after helper inlining and before the rules.

Scalar accumulator promotion.  The pattern

        T acc = init;  ... acc += e; acc -= e'; acc = acc + e''; ...   TABLE[idx] = acc;

(the declaration and the final store in the same block; every other use of `acc` is the target of an assignment /
compound assignment; the variables of `idx` are not assigned in between; TABLE itself is not mentioned in between) is
rewritten to its store-through form

        TABLE[idx] = init; ... TABLE[idx] += e; ...

which is what the engine's own code does and what the rules (two-phase update, stoichiometry terms, chemostat guards)
are written against.  Both forms compute the same table contents when nothing else reads TABLE[idx] in between, which
the "not mentioned" condition guarantees for direct accesses."""
import copy

from .cxfe import kids, strip, walk, subscript, name_of

SCALARS = ("double", "int", "float", "long", "size_t", "unsigned int")


def _refs(n, vid):
    return [x for x in walk(n) if x.get("kind") == "DeclRefExpr" and x.get("referencedDecl", {}).get("id") == vid]


def _assigned_names(nodes):
    out = set()
    for b in nodes:
        for n in walk(b):
            k = n.get("kind")
            tgt = None
            if k == "CompoundAssignOperator" or (k == "BinaryOperator" and n.get("opcode") == "="):
                tgt = strip(kids(n)[0])
            elif k == "UnaryOperator" and n.get("opcode") in ("++", "--"):
                tgt = strip(kids(n)[0])
            if tgt is not None and tgt.get("kind") == "DeclRefExpr":
                out.add(tgt.get("referencedDecl", {}).get("id"))
    return out


def _only_targets(nodes, vid):
    """every reference to vid inside nodes is the direct left operand of an assignment / compound assignment, or the left
    operand of `acc + e` / `acc - e` directly under `acc = ...`"""
    ok_ids = set()
    for b in nodes:
        for n in walk(b):
            k = n.get("kind")
            if k == "CompoundAssignOperator" or (k == "BinaryOperator" and n.get("opcode") == "="):
                l = strip(kids(n)[0])
                if l.get("kind") == "DeclRefExpr" and l.get("referencedDecl", {}).get("id") == vid:
                    ok_ids.add(id(l))
                    if k == "BinaryOperator":
                        r = strip(kids(n)[1])
                        if r.get("kind") == "BinaryOperator" and r.get("opcode") in ("+", "-"):
                            rl = strip(kids(r)[0])
                            if rl.get("kind") == "DeclRefExpr" and rl.get("referencedDecl", {}).get("id") == vid:
                                ok_ids.add(id(rl))
    for b in nodes:
        for x in _refs(b, vid):
            if id(x) not in ok_ids:
                return False
    return True


def _promote_block(blk, log, fq):
    inner = blk.get("inner") or []
    i = 0
    while i < len(inner):
        st = inner[i]
        if st and st.get("kind") == "DeclStmt" and len(kids(st)) == 1 and kids(st)[0].get("kind") == "VarDecl":
            v = kids(st)[0]
            t = v.get("type", {}).get("qualType", "")
            if t in SCALARS and kids(v) and v.get("storageClass") != "static":
                vid = v.get("id")
                # the final store: last statement of the block that mentions v
                users = [j for j in range(i + 1, len(inner)) if inner[j] and _refs(inner[j], vid)]
                if users:
                    q = users[-1]
                    fin = strip(inner[q])
                    if fin.get("kind") == "BinaryOperator" and fin.get("opcode") == "=":
                        lhs, rhs = kids(fin)
                        r = strip(rhs, casts=True)
                        sub = subscript(lhs)
                        if r.get("kind") == "DeclRefExpr" and r.get("referencedDecl", {}).get("id") == vid and \
                                sub is not None and not _refs(lhs, vid):
                            mid = [inner[j] for j in range(i + 1, q) if inner[j]]
                            idx_ids = {x.get("referencedDecl", {}).get("id") for x in walk(sub[1])
                                       if x.get("kind") == "DeclRefExpr"}
                            tname = name_of(sub[0])
                            mentions = any(name_of(x) == tname for b in mid for x in walk(b)
                                           if x.get("kind") in ("MemberExpr", "DeclRefExpr"))
                            if _only_targets(mid, vid) and not (idx_ids & _assigned_names(mid)) and not mentions and tname:
                                def rep(n):
                                    ch = n.get("inner")
                                    if not ch:
                                        return
                                    for k_, c in enumerate(ch):
                                        if not c:
                                            continue
                                        if c.get("kind") == "DeclRefExpr" and c.get("referencedDecl", {}).get("id") == vid:
                                            ch[k_] = copy.deepcopy(lhs)
                                        else:
                                            rep(c)
                                for b in mid:
                                    rep(b)
                                init = kids(v)[-1]
                                inner[i] = {"kind": "BinaryOperator", "opcode": "=", "type": v.get("type", {}),
                                            "range": st.get("range", {}), "inner": [copy.deepcopy(lhs), init]}
                                del inner[q]
                                log.append((fq, v.get("name"), tname))
                                continue
        i += 1
    for c in inner:
        if c:
            _rec(c, log, fq)


def _rec(n, log, fq):
    if n.get("kind") == "CompoundStmt":
        _promote_block(n, log, fq)
        return
    for c in n.get("inner", []) or []:
        if c:
            _rec(c, log, fq)


def _forward_block(blk, log, fq):
    """`const T v = <expr with a call>;  TABLE[idx] = v;  ... v ...`  ->  `TABLE[idx] = <expr>;  ... TABLE[idx] ...`
    (v is read nowhere before the store, TABLE is not written and the variables of idx are not assigned afterwards in the block):
    the value computed once and kept in a local is the table entry it is stored into."""
    inner = blk.get("inner") or []
    i = 0
    while i < len(inner):
        st = inner[i]
        if st and st.get("kind") == "DeclStmt" and len(kids(st)) == 1 and kids(st)[0].get("kind") == "VarDecl":
            v = kids(st)[0]
            t = v.get("type", {}).get("qualType", "")
            has_call = kids(v) and any(x.get("kind") in ("CallExpr", "CXXMemberCallExpr") for x in walk(kids(v)[-1]))
            if t.startswith("const ") and t[6:] in SCALARS and has_call:
                vid = v.get("id")
                q = next((j for j in range(i + 1, len(inner)) if inner[j] and _refs(inner[j], vid)), None)
                if q is not None:
                    fin = strip(inner[q])
                    if fin.get("kind") == "BinaryOperator" and fin.get("opcode") == "=":
                        lhs, rhs = kids(fin)
                        r = strip(rhs, casts=True)
                        sub = subscript(lhs)
                        tname = name_of(sub[0]) if sub is not None else None
                        if tname is None and sub is not None and subscript(sub[0]) is not None:
                            tname = name_of(subscript(sub[0])[0])
                        if r.get("kind") == "DeclRefExpr" and r.get("referencedDecl", {}).get("id") == vid and sub is not None and \
                                tname and not _refs(lhs, vid):
                            rest = [inner[j] for j in range(q + 1, len(inner)) if inner[j]]
                            idx_ids = {x.get("referencedDecl", {}).get("id") for x in walk(lhs) if x.get("kind") == "DeclRefExpr"}
                            writes_t = False
                            for b in rest:
                                for n in walk(b):
                                    k = n.get("kind")
                                    tg = None
                                    if k == "CompoundAssignOperator" or (k == "BinaryOperator" and n.get("opcode") == "="):
                                        tg = strip(kids(n)[0])
                                    elif k == "UnaryOperator" and n.get("opcode") in ("++", "--"):
                                        tg = strip(kids(n)[0])
                                    while tg is not None and subscript(tg) is not None:
                                        tg = strip(subscript(tg)[0])
                                    if tg is not None and name_of(tg) == tname:
                                        writes_t = True
                            if not writes_t and not (idx_ids & _assigned_names(rest)):
                                def rep(n):
                                    ch = n.get("inner")
                                    if not ch:
                                        return
                                    for k_, c in enumerate(ch):
                                        if not c:
                                            continue
                                        if c.get("kind") == "DeclRefExpr" and c.get("referencedDecl", {}).get("id") == vid:
                                            ch[k_] = copy.deepcopy(lhs)
                                        else:
                                            rep(c)
                                for b in rest:
                                    rep(b)
                                fin_inner = fin.get("inner")
                                fin_inner[1] = kids(v)[-1]
                                del inner[i]
                                log.append((fq, v.get("name"), tname + "[..] (forwarded)"))
                                continue
        i += 1
    for c in inner:
        if c:
            _rec2(c, log, fq)


def _alias_block(blk, log, fq):
    """`T & r = TABLE[idx];  ... r ...`  ->  `... TABLE[idx] ...`  (a reference local bound to a table row or element is that
    row: the variables of idx are not assigned in the rest of the block, so both spellings name the same object)"""
    inner = blk.get("inner") or []
    i = 0
    while i < len(inner):
        st = inner[i]
        if st and st.get("kind") == "DeclStmt" and len(kids(st)) == 1 and kids(st)[0].get("kind") == "VarDecl" and kids(kids(st)[0]):
            v = kids(st)[0]
            t = v.get("type", {}).get("qualType", "")
            init = strip(kids(v)[-1], casts=True) if kids(v) else None
            if t.rstrip().endswith("&") and not t.rstrip().endswith("&&") and init is not None and subscript(init) is not None:
                pure = all(x.get("kind") in ("DeclRefExpr", "MemberExpr", "CXXThisExpr", "ImplicitCastExpr", "ParenExpr",
                                             "IntegerLiteral", "CXXOperatorCallExpr", "ArraySubscriptExpr") or
                           (x.get("kind") == "BinaryOperator" and x.get("opcode") in ("+", "-", "*"))
                           for x in walk(init)) and all(
                    name_of(kids(x)[0]) == "operator[]" for x in walk(init) if x.get("kind") == "CXXOperatorCallExpr")
                vid = v.get("id")
                rest = [inner[j] for j in range(i + 1, len(inner)) if inner[j]]
                idx_ids = {x.get("referencedDecl", {}).get("id") for x in walk(init) if x.get("kind") == "DeclRefExpr"}
                if pure and not (idx_ids & _assigned_names(rest)):
                    def rep(n):
                        ch = n.get("inner")
                        if not ch:
                            return
                        for k_, c in enumerate(ch):
                            if not c:
                                continue
                            if c.get("kind") == "DeclRefExpr" and c.get("referencedDecl", {}).get("id") == vid:
                                ch[k_] = copy.deepcopy(init)
                            else:
                                rep(c)
                    for b in rest:
                        rep(b)
                    del inner[i]
                    log.append((fq, v.get("name"), "reference alias written out"))
                    continue
            if t.rstrip().endswith("*") and init is not None and _ptr_alias(inner, i, v, init, log, fq):
                continue
        i += 1
    for c in inner:
        if c:
            _rec3(c, log, fq)


def _ptr_alias(inner, i, v, init, log, fq):
    """`const T * p = V.data() + e;` (or `&V[e]`, or `V.data()`)  ...  p[k]   ->   V[e + k]: a row pointer into a vector is that
    row.  Only when p is used for nothing else than subscripts and the variables of e are not assigned in the rest of the block."""
    cont, off = None, None
    rng = v.get("range", {})

    def data_of(x):
        x = strip(x, casts=True)
        if x.get("kind") == "CXXMemberCallExpr" and kids(x) and kids(x)[0].get("kind") == "MemberExpr" and \
                kids(x)[0].get("name") == "data" and len(kids(x)) == 1 and kids(kids(x)[0]):
            return kids(kids(x)[0])[0]
        return None
    if init.get("kind") == "BinaryOperator" and init.get("opcode") == "+" and data_of(kids(init)[0]) is not None:
        cont, off = data_of(kids(init)[0]), kids(init)[1]
    elif data_of(init) is not None:
        cont, off = data_of(init), {"kind": "IntegerLiteral", "value": "0", "type": {"qualType": "int"}, "range": rng}
    elif init.get("kind") == "UnaryOperator" and init.get("opcode") == "&" and subscript(strip(kids(init)[0], casts=True)) is not None:
        cont, off = subscript(strip(kids(init)[0], casts=True))
    if cont is None:
        return False
    cont_s = strip(cont, casts=True)
    if cont_s.get("kind") not in ("DeclRefExpr", "MemberExpr"):
        return False
    if not all(x.get("kind") in ("DeclRefExpr", "MemberExpr", "CXXThisExpr", "ImplicitCastExpr", "ParenExpr", "IntegerLiteral") or
               (x.get("kind") == "BinaryOperator" and x.get("opcode") in ("+", "-", "*")) for x in walk(off)):
        return False
    vid = v.get("id")
    rest = [inner[j] for j in range(i + 1, len(inner)) if inner[j]]
    idx_ids = {x.get("referencedDecl", {}).get("id") for x in walk(off) if x.get("kind") == "DeclRefExpr"}
    if idx_ids & _assigned_names(rest) or vid in _assigned_names(rest):
        return False
    uses, subs = [], []
    for b in rest:
        for x in walk(b):
            if x.get("kind") == "DeclRefExpr" and x.get("referencedDecl", {}).get("id") == vid:
                uses.append(x)
            if x.get("kind") == "ArraySubscriptExpr" and kids(x):
                b0 = strip(kids(x)[0], casts=True)
                if b0.get("kind") == "DeclRefExpr" and b0.get("referencedDecl", {}).get("id") == vid:
                    subs.append(x)
    if not uses or len(uses) != len(subs):
        return False
    ety = v.get("type", {}).get("qualType", "double").replace("*", "").replace("const ", "").strip()
    for x in subs:
        k = kids(x)[1]
        x["kind"] = "CXXOperatorCallExpr"
        x["inner"] = [{"kind": "ImplicitCastExpr", "type": {"qualType": "fn"}, "range": rng,
                       "inner": [{"kind": "DeclRefExpr", "type": {"qualType": "fn"}, "range": rng,
                                  "referencedDecl": {"id": "op[]", "kind": "CXXMethodDecl", "name": "operator[]"}}]},
                      copy.deepcopy(cont_s),
                      {"kind": "BinaryOperator", "opcode": "+", "type": {"qualType": "int"}, "range": x.get("range", rng),
                       "inner": [copy.deepcopy(off), k]}]
        x["type"] = {"qualType": ety}
    del inner[i]
    log.append((fq, v.get("name"), "row pointer written out"))
    return True


def _rec3(n, log, fq):
    if n.get("kind") == "CompoundStmt":
        _alias_block(n, log, fq)
        return
    for c in n.get("inner", []) or []:
        if c:
            _rec3(c, log, fq)


def _chain_links(n):
    """[(var node, int value, then-branch)] + final else (or None) for  if(v == k0) A else if(v == k1) B ... [else Z]"""
    from .cxfe import raw_kids
    links, cur, var = [], n, None
    while cur is not None and cur.get("kind") == "IfStmt":
        p = raw_kids(cur)
        c = strip(p[0], casts=True)
        if not (c.get("kind") == "BinaryOperator" and c.get("opcode") == "=="):
            return None
        a, b = [strip(x, casts=True) for x in kids(c)]
        if b.get("kind") != "IntegerLiteral":
            a, b = b, a
        if b.get("kind") != "IntegerLiteral" or a.get("kind") not in ("DeclRefExpr", "MemberExpr"):
            return None
        key = (a.get("kind"), a.get("name"), a.get("referencedDecl", {}).get("id"))
        if var is None:
            var = (key, a)
        elif var[0] != key:
            return None
        links.append((int(b["value"]), p[1]))
        cur = p[2] if len(p) > 2 and p[2] else None
    if len(links) < 3 or len({k for k, _ in links}) != len(links):
        return None
    return var[1], links, cur


def _switch_block(blk, log, fq):
    """an if / else-if chain that compares one integer variable with distinct constants is the `switch` it spells out"""
    inner = blk.get("inner") or []
    for i, st in enumerate(inner):
        if st and st.get("kind") == "IfStmt":
            ch = _chain_links(st)
            if ch is None:
                continue
            var, links, last = ch
            assigned = _assigned_names([b for _, b in links])
            if var.get("referencedDecl", {}).get("id") in assigned:
                continue
            body = []
            for k, b in links:
                lit = {"kind": "IntegerLiteral", "value": str(k), "type": {"qualType": "int"}, "range": st.get("range", {})}
                body.append({"kind": "CaseStmt", "inner": [{"kind": "ConstantExpr", "inner": [lit], "type": {"qualType": "int"},
                                                           "range": st.get("range", {})}, b], "range": b.get("range", {})})
                body.append({"kind": "BreakStmt", "range": b.get("range", {})})
            if last is not None:
                body.append({"kind": "DefaultStmt", "inner": [last], "range": last.get("range", {})})
                body.append({"kind": "BreakStmt", "range": last.get("range", {})})
            inner[i] = {"kind": "SwitchStmt", "range": st.get("range", {}), "loc": st.get("loc", {}),
                        "inner": [copy.deepcopy(var), {"kind": "CompoundStmt", "inner": body, "range": st.get("range", {})}]}
            log.append((fq, var.get("name") or var.get("referencedDecl", {}).get("name"), "if-chain read as a switch"))
    for c in inner:
        if c:
            _rec4(c, log, fq)


def _rec4(n, log, fq):
    if n.get("kind") == "CompoundStmt":
        _switch_block(n, log, fq)
        return
    for c in n.get("inner", []) or []:
        if c:
            _rec4(c, log, fq)


_rf = [0]


def _rangefor(n, log, fq):
    """for(T & x : C) body   ->   for(int k = 0; k < C.size(); k++) { T & x = C[k]; body }   for a container named by a plain
    variable or member (the reference form is then written out by the alias pass)"""
    for c in n.get("inner", []) or []:
        if c:
            _rangefor(c, log, fq)
    if n.get("kind") != "CXXForRangeStmt":
        return
    raw = n.get("inner") or []
    if len(raw) != 8 or raw[1] is None or raw[6] is None or raw[7] is None:
        return
    rdecl = kids(raw[1])[0] if kids(raw[1]) else None
    if rdecl is None or not kids(rdecl):
        return
    cont = strip(kids(rdecl)[-1], casts=True)
    if cont.get("kind") not in ("DeclRefExpr", "MemberExpr"):
        return
    lv = kids(raw[6])[0] if kids(raw[6]) else None
    if lv is None or lv.get("kind") != "VarDecl":
        return
    _rf[0] += 1
    kid = "rf%d" % _rf[0]
    rng = n.get("range", {})
    kdecl = {"kind": "VarDecl", "id": kid, "name": "__k%d" % _rf[0], "type": {"qualType": "int"}, "init": "c", "range": rng,
             "loc": rng.get("begin", {}),
             "inner": [{"kind": "IntegerLiteral", "value": "0", "type": {"qualType": "int"}, "range": rng}]}

    def kref():
        return {"kind": "DeclRefExpr", "type": {"qualType": "int"}, "range": rng,
                "referencedDecl": {"id": kid, "kind": "VarDecl", "name": "__k%d" % _rf[0], "type": {"qualType": "int"}}}
    size = {"kind": "CXXMemberCallExpr", "type": {"qualType": "size_t"}, "range": rng,
            "inner": [{"kind": "MemberExpr", "name": "size", "type": {"qualType": "<bound member function type>"}, "range": rng,
                       "inner": [copy.deepcopy(cont)]}]}
    cond = {"kind": "BinaryOperator", "opcode": "<", "type": {"qualType": "bool"}, "range": rng, "inner": [kref(), size]}
    inc = {"kind": "UnaryOperator", "opcode": "++", "isPostfix": True, "type": {"qualType": "int"}, "range": rng, "inner": [kref()]}
    ety = lv.get("type", {}).get("qualType", "double").replace("&", "").replace("const ", "").strip()
    elem = {"kind": "CXXOperatorCallExpr", "type": {"qualType": ety}, "valueCategory": "lvalue", "range": rng,
            "inner": [{"kind": "ImplicitCastExpr", "type": {"qualType": "fn"}, "range": rng,
                       "inner": [{"kind": "DeclRefExpr", "type": {"qualType": "fn"}, "range": rng,
                                  "referencedDecl": {"id": "op[]", "kind": "CXXMethodDecl", "name": "operator[]"}}]},
                      copy.deepcopy(cont), kref()]}
    lv2 = copy.copy(lv)
    lv2["inner"] = [elem]
    lv2["init"] = "c"
    body = raw[7]
    stmts = kids(body) if body.get("kind") == "CompoundStmt" else [body]
    nb = {"kind": "CompoundStmt", "range": body.get("range", rng),
          "inner": [{"kind": "DeclStmt", "range": rng, "inner": [lv2]}] + list(stmts)}
    n["kind"] = "ForStmt"
    n["inner"] = [{"kind": "DeclStmt", "range": rng, "inner": [kdecl]}, None, cond, inc, nb]
    log.append((fq, lv.get("name"), "range-for written as an index loop"))


def _rec2(n, log, fq):
    if n.get("kind") == "CompoundStmt":
        _forward_block(n, log, fq)
        return
    for c in n.get("inner", []) or []:
        if c:
            _rec2(c, log, fq)


def _forwhile(n, log, fq):
    """for(; c; step) body   ->   while(c) { body; step; }   when the loop declares nothing and its body holds no `continue`
    (a continue would skip the step in the while form)"""
    for c in n.get("inner", []) or []:
        if c:
            _forwhile(c, log, fq)
    if n.get("kind") != "ForStmt":
        return
    raw = n.get("inner") or []
    if len(raw) != 5 or (raw[0] and raw[0].get("kind") not in (None, "NullStmt")) or raw[1] or not raw[2] or not raw[3] or not raw[4]:
        return

    def has_continue(x):
        if not x:
            return False
        if x.get("kind") == "ContinueStmt":
            return True
        if x.get("kind") in ("ForStmt", "WhileStmt", "DoStmt", "CXXForRangeStmt", "LambdaExpr"):
            return False
        return any(has_continue(c_) for c_ in x.get("inner", []) or [])
    if has_continue(raw[4]):
        return
    body = raw[4]
    stmts = kids(body) if body.get("kind") == "CompoundStmt" else [body]
    nb = {"kind": "CompoundStmt", "range": body.get("range", n.get("range", {})), "inner": list(stmts) + [raw[3]]}
    n["kind"] = "WhileStmt"
    n["inner"] = [raw[2], nb]
    log.append((fq, "for", "for(; c; step) written as while"))


def _same_lvalue(a, b):
    """structural equality of two side-effect-free lvalue / index expressions (casts and parentheses aside)"""
    a, b = strip(a, casts=True), strip(b, casts=True)
    if a.get("kind") != b.get("kind"):
        return False
    k = a.get("kind")
    if k == "DeclRefExpr":
        return a.get("referencedDecl", {}).get("id") == b.get("referencedDecl", {}).get("id")
    if k == "MemberExpr":
        if a.get("name") != b.get("name"):
            return False
    elif k in ("IntegerLiteral", "FloatingLiteral"):
        return a.get("value") == b.get("value")
    elif k in ("BinaryOperator", "UnaryOperator"):
        if a.get("opcode") != b.get("opcode") or (k == "UnaryOperator" and a.get("opcode") in ("++", "--")):
            return False
    elif k not in ("CXXThisExpr", "ArraySubscriptExpr", "CXXOperatorCallExpr"):
        return False
    ka, kb = kids(a), kids(b)
    return len(ka) == len(kb) and all(_same_lvalue(x, y) for x, y in zip(ka, kb))


def _compound(n, log, fq):
    """x = x op e   ->   x op= e   (op in + - * /; also x = e + x and x = e * x, both commutative in IEEE arithmetic) for a
    side-effect-free lvalue x: the form the engine's own code uses and the rules read"""
    for c in n.get("inner", []) or []:
        if c:
            _compound(c, log, fq)
    if n.get("kind") == "BinaryOperator" and n.get("opcode") == "=" and len(n.get("inner") or []) == 2:
        l, r = n["inner"]
        rs = strip(r, casts=True)
        if rs.get("kind") == "BinaryOperator" and rs.get("opcode") in ("+", "-", "*", "/") and len(kids(rs)) == 2:
            a, b = kids(rs)
            op = rs["opcode"]
            other = None
            if _same_lvalue(l, a):
                other = b
            elif op in ("+", "*") and _same_lvalue(l, b):
                other = a
            if other is not None and not any(x.get("kind") in ("CallExpr", "CXXMemberCallExpr") for x in walk(l)):
                n["kind"] = "CompoundAssignOperator"
                n["opcode"] = op + "="
                n["inner"] = [l, other]
                log.append((fq, op + "=", "x = x op e written as a compound assignment"))


def _positive_if(n, log, fq):
    """if(!c) A else B   ->   if(c) B else A   for a two-way `if` whose else branch is not an else-if chain"""
    for c in n.get("inner", []) or []:
        if c:
            _positive_if(c, log, fq)
    if n.get("kind") == "IfStmt":
        raw = n.get("inner") or []
        if len(raw) == 3 and raw[0] and raw[1] and raw[2] and raw[2].get("kind") != "IfStmt" and not n.get("hasVar") and \
                not n.get("hasInit"):
            c = raw[0]
            cs = c
            while cs.get("kind") in ("ParenExpr", "ImplicitCastExpr", "ExprWithCleanups") and kids(cs):
                cs = kids(cs)[0]
            if cs.get("kind") == "UnaryOperator" and cs.get("opcode") == "!" and kids(cs):
                n["inner"] = [kids(cs)[0], raw[2], raw[1]]
                log.append((fq, "if", "negated two-way if written positively"))


def _const_right(n, log, fq):
    """`-1 == x`, `0 != x`  ->  `x == -1`, `x != 0`: equality is symmetric, the rules read the variable on the left"""
    for c in n.get("inner", []) or []:
        if c:
            _const_right(c, log, fq)
    if n.get("kind") == "BinaryOperator" and n.get("opcode") in ("==", "!=") and len(n.get("inner") or []) == 2:
        l, r = n["inner"]

        def lit(x):
            x = strip(x, casts=True)
            if x.get("kind") in ("IntegerLiteral", "FloatingLiteral", "CXXBoolLiteralExpr", "CXXNullPtrLiteralExpr"):
                return True
            return x.get("kind") == "UnaryOperator" and x.get("opcode") in ("-", "+") and kids(x) and lit(kids(x)[0])
        if l and r and lit(l) and not lit(r):
            n["inner"] = [r, l]
            log.append((fq, "==", "constant moved to the right of == / !="))


def run(tu):
    log = []
    for f in tu.all_fns():
        if f.body is not None:
            _const_right(f.body, log, f.qual)
            _positive_if(f.body, log, f.qual)
            _compound(f.body, log, f.qual)
            _rangefor(f.body, log, f.qual)
            _forwhile(f.body, log, f.qual)
            _rec3(f.body, log, f.qual)
            _rec4(f.body, log, f.qual)
            _rec(f.body, log, f.qual)
            _rec2(f.body, log, f.qual)
    return log
