"""Verdict plumbing: rule instances, floors, known findings, evidence, exit codes.

Exit codes: 0 held / 1 VIOLATION (a line `VIOLATION property=<id> replay=<path>`) / 2 ANALYSIS-ERROR.
Findings are keyed by rule + qualified function + normalised construct text, never by line.
"""
import json, os, re, sys, time, traceback

from . import VERIF, REPO


class AnalysisError(Exception):
    """The analysis cannot decide (vanished anchor, unrecognised idiom, instance count under its floor)."""


def norm(text):
    return re.sub(r"\s+", " ", str(text)).strip()


class Inst:
    __slots__ = ("rule", "file", "line", "func", "what", "status", "detail", "nontrivial")

    def __init__(self, rule, file, line, func, what, status, detail="", nontrivial=False):
        self.rule, self.file, self.line, self.func = rule, file, line, func
        self.what, self.status, self.detail, self.nontrivial = norm(what), status, norm(detail), nontrivial

    @property
    def key(self):
        return "%s|%s|%s" % (self.rule, self.func, self.what)

    def where(self):
        f = self.file or "?"
        if f.startswith(REPO + "/"):
            f = f[len(REPO) + 1:]
        return "%s:%s" % (f, self.line if self.line is not None else "?")

    def as_dict(self):
        d = {"rule": self.rule, "where": self.where(), "function": self.func, "construct": self.what,
             "status": self.status}
        if self.detail:
            d["detail"] = self.detail
        return d


class Ctx:
    """One run of one property's rules against the current tree."""

    def __init__(self, pid, tier, repo=REPO):
        self.pid, self.tier, self.repo = pid, tier, repo
        self.insts = []
        self.assumptions = []
        self.floors = {}
        self.notes = []
        self.analysed = {}
        self._py = None
        self._cx = None

    # front ends (lazy)
    @property
    def py(self):
        if self._py is None:
            from . import pyfe
            self._py = pyfe.load(self.repo)
        return self._py

    @property
    def cx(self):
        if self._cx is None:
            from . import cxfe
            self._cx = cxfe.load(self.repo)
        return self._cx

    # instance recording
    def _loc(self, node):
        """node: python ast node (has ._file), clang node dict (has _f/_l), (file, line) tuple, or None"""
        if node is None:
            return None, None
        if isinstance(node, tuple):
            return node
        if isinstance(node, dict):
            from . import cxfe
            return cxfe.loc(node)
        return getattr(node, "_file", None), getattr(node, "lineno", None)

    def add(self, status, rule, node, func, what, detail="", nontrivial=False):
        f, l = self._loc(node)
        i = Inst(rule, f, l, func, what, status, detail, nontrivial)
        self.insts.append(i)
        return i

    def ok(self, rule, node, func, what, detail="", nontrivial=True):
        return self.add("ok", rule, node, func, what, detail, nontrivial)

    def violation(self, rule, node, func, what, detail=""):
        return self.add("violation", rule, node, func, what, detail, True)

    def info(self, rule, node, func, what, detail=""):
        return self.add("info", rule, node, func, what, detail, False)

    def check(self, cond, rule, node, func, what, detail_ok="", detail_bad="", nontrivial=True):
        if cond:
            return self.ok(rule, node, func, what, detail_ok, nontrivial)
        return self.violation(rule, node, func, what, detail_bad)

    def assume(self, text):
        if text not in self.assumptions:
            self.assumptions.append(text)

    def floor(self, rule, n):
        """rule must have at least n obligations (ok + violation) or the run is an analysis error"""
        self.floors[rule] = max(n, self.floors.get(rule, 0))

    def error(self, rule, msg):
        raise AnalysisError("rule=%s %s" % (rule, msg))

    def need(self, cond, rule, msg):
        if not cond:
            self.error(rule, msg)

    def note(self, text):
        self.notes.append(text)


def borrow(ctx, dst, fn, *args):
    """run rule function(s) of another property and re-label what they record as rules of this property:
    `Cxx.NAME` becomes `<dst>.NAME` (dst = this property's id).  A clause that another property owns is often a necessary
    condition of this one too; the instances are then discharged (or violated) under both."""
    n0 = len(ctx.insts)
    floors0 = dict(ctx.floors)
    fn(ctx, *args)
    for i in ctx.insts[n0:]:
        if not i.rule.startswith(dst + "."):
            i.rule = dst + "." + i.rule.split(".", 1)[1]
    new_floors = {k: v for k, v in ctx.floors.items() if k not in floors0 or floors0[k] != v}
    for k, v in new_floors.items():
        if not k.startswith(dst + "."):
            del ctx.floors[k]
            if k in floors0:
                ctx.floors[k] = floors0[k]
            ctx.floors[dst + "." + k.split(".", 1)[1]] = max(v, ctx.floors.get(dst + "." + k.split(".", 1)[1], 0))


def load_known():
    p = os.path.join(VERIF, "known_findings.json")
    if not os.path.exists(p):
        return {"known": [], "fixed": []}
    return json.load(open(p))


EXPLANATION = (
    "Static analysis: every instance of the listed rules is decided on the current source of /repo "
    "(Python through ast, the C++ engine through Clang's type-resolved JSON AST), without executing "
    "the package or the engine and without a solver. An obligation is one rule instance (a named construct: "
    "function, call site, subscript, store, table entry or path); discharged = the rule holds at that construct. "
    "The rules decide named structural clauses that are necessary conditions of the property, not the run-time "
    "behaviour itself; the undecided clauses are listed in MANIFEST level_note and DESIGN.md section 6.")


def run_property(pid, tier, run_fn, extra=None):
    """Run rules, print the report, write evidence, return the exit code."""
    t0 = time.time()
    ctx = Ctx(pid, tier)
    evid_path = os.path.join(os.environ.get("SA_EVIDENCE_DIR") or os.path.join(VERIF, "evidence"), "%s.json" % pid)
    err = None
    try:
        run_fn(ctx)
        if extra:
            extra(ctx)
    except AnalysisError as e:
        err = str(e)
    except Exception:
        tb = traceback.format_exc()
        err = "internal error\n" + tb
    canon = {}
    if ctx._cx is not None:
        canon["engine"] = {"helpers_inlined": ["%s <- %s" % x for x in ctx._cx.meta.get("inlined", [])][:40],
                           "accumulators_promoted": ["%s: %s -> %s" % x for x in ctx._cx.meta.get("promoted", [])][:40]}
    if ctx._py is not None:
        canon["package"] = {"normalised": {m.name: [list(x) for x in m.norm_log][:40] for m in ctx._py.mods.values()
                                           if getattr(m, "norm_log", None)},
                            "helpers_absorbed": list(getattr(ctx._py, "pruned", []))}
    ctx.analysed["canonicalisation"] = canon
    known0 = {k["key"] for k in load_known().get("known", []) if k.get("property") == pid}
    any_new = any(i.status == "violation" and i.key not in known0 for i in ctx.insts)
    if err is not None and not any_new:
        # nothing definite was found and part of the code could not be analysed: no verdict
        print("ANALYSIS-ERROR property=%s %s" % (pid, err))
        _write_evidence(evid_path, pid, tier, ctx, t0, error=err.strip().splitlines()[-1] if "internal error" in err else err)
        return 2
    if err is not None:
        # definite violations were recorded before the analysis stopped: they stand; the rest is reported as not analysed
        ctx.note("analysis incomplete after the violations below: %s" % err.strip().splitlines()[-1 if "internal error" in err
                                                                                                   else 0][:300])
    counts = {}
    for i in ctx.insts:
        c = counts.setdefault(i.rule, {"ok": 0, "violation": 0, "info": 0})
        c[i.status] = c.get(i.status, 0) + 1
    any_violation = any(i.status == "violation" for i in ctx.insts)
    for rule, n in ctx.floors.items():
        c = counts.get(rule, {"ok": 0, "violation": 0})
        have = c["ok"] + c["violation"]
        if have < n and (any_violation or err is not None):
            ctx.note("rule %s matched %d instances (floor %d): instances are missing, see the violations" %
                     (rule, have, n))
        elif have < n:
            msg = ("rule=%s matched %d instances, fewer than the %d confirmed by hand "
                   "(an anchor vanished or an idiom is no longer recognised)" % (rule, have, n))
            print("ANALYSIS-ERROR property=%s %s" % (pid, msg))
            _write_evidence(evid_path, pid, tier, ctx, t0, error=msg)
            return 2

    rdir = os.path.join(os.path.dirname(evid_path), "replay")
    if os.path.isdir(rdir):
        for f in os.listdir(rdir):
            if f.startswith(pid + "."):
                os.remove(os.path.join(rdir, f))
    known = load_known()
    known_keys = {k["key"]: k for k in known.get("known", []) if k.get("property") == pid}
    print("%s %s: %d rules, %d instances" % (pid, tier, len(counts), len(ctx.insts)))
    for rule in sorted(counts):
        c = counts[rule]
        eg = next((i for i in ctx.insts if i.rule == rule and i.status == "ok"), None)
        line = "  %-20s %3d instances %3d discharged" % (rule, c["ok"] + c["violation"], c["ok"])
        if c["violation"]:
            line += " %d VIOLATED" % c["violation"]
        if c.get("info"):
            line += " (%d info)" % c["info"]
        if eg is not None:
            line += "   e.g. %s %s: %s" % (eg.where(), eg.func, eg.what[:90])
        print(line)
    for n in ctx.notes:
        print("  note: " + n)
    viol = [i for i in ctx.insts if i.status == "violation"]
    new = []
    seen_known = set()
    for v in viol:
        if v.key in known_keys:
            if v.key not in seen_known:
                seen_known.add(v.key)
                print("KNOWN-FINDING: property=%s %s [%s at %s]" % (pid, known_keys[v.key].get("what", v.detail),
                                                                     v.rule, v.where()))
        else:
            new.append(v)
    rc = 0
    if new:
        rc = 1
        os.makedirs(rdir, exist_ok=True)
        per = {}
        for v in new:
            n = per[v.rule] = per.get(v.rule, 0) + 1
            path = os.path.join(rdir, "%s.%d.json" % (v.rule, n))
            d = v.as_dict()
            d.update({"property": pid, "key": v.key,
                      "rerun": "/venv/bin/python -m sa check %s --tier %s" % (pid, tier)})
            json.dump(d, open(path, "w"), indent=1)
            print("    %s %s  %s  -- %s" % (v.where(), v.func, v.what[:120], v.detail[:200]))
            print("VIOLATION property=%s replay=%s" % (pid, path))
    _write_evidence(evid_path, pid, tier, ctx, t0, counts=counts, nviol=len(new), known=sorted(seen_known))
    return rc


def _write_evidence(path, pid, tier, ctx, t0, counts=None, nviol=0, known=(), error=None):
    os.makedirs(os.path.dirname(path), exist_ok=True)
    obl = [i for i in ctx.insts if i.status in ("ok", "violation")]
    ok = [i for i in obl if i.status == "ok"]
    distinct_nt = len({i.key for i in obl if i.nontrivial})
    samples = []
    seen_rules = set()
    for i in obl:  # one sample per rule first, then fill
        if i.rule not in seen_rules:
            seen_rules.add(i.rule)
            samples.append(i.as_dict())
    for i in obl:
        if len(samples) >= 40:
            break
        if i.status == "violation" and i.as_dict() not in samples:
            samples.append(i.as_dict())
    cov = {
        "explanation": EXPLANATION + (" ANALYSIS-ERROR: " + error if error else ""),
        "obligations": len(obl),
        "discharged": len(ok),
        "evaluations": len(ctx.insts),
        "distinct_nontrivial": distinct_nt,
        "rule": ("one evaluation per rule instance; non-trivial = the discharge needed a guard, a polynomial "
                 "identity, a kind/tag/dimension computation or a path argument (as opposed to a presence check); "
                 "distinct = distinct (rule, function, normalised construct) keys"),
        "samples": samples or [{"note": "no instance recorded"}],
        "checker_cmd": "/venv/bin/python -m sa check %s --tier %s" % (pid, tier),
        "trusted_base": ["CPython ast (3.12)", "Clang 14 parser and type resolution (-fsyntax-only -ast-dump=json)",
                         "the frozen tables in sa/ (each entry carries its reason)"],
        "exhaustive": error is None,
        "rules": {r: {"instances": c["ok"] + c["violation"], "discharged": c["ok"], "violated": c["violation"],
                      "info": c.get("info", 0)} for r, c in sorted((counts or {}).items())},
        "analysed": ctx.analysed,
        "known_findings_matched": list(known),
        "info": [i.as_dict() for i in ctx.insts if i.status == "info"][:30],
    }
    ev = {"property_id": pid, "tier": tier, "seed": int(os.environ.get("VERIF_SEED", "0") or 0), "level": "other",
          "coverage": cov, "assumptions": ctx.assumptions, "wall_s": round(time.time() - t0, 3),
          "violations": nviol}
    tmp = path + ".tmp%d" % os.getpid()
    json.dump(ev, open(tmp, "w"), indent=1)
    os.replace(tmp, path)
