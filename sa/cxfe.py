"""CXFE -- C++ front end: Clang's type-resolved JSON AST of the engine translation unit.

`clang++ <the build's own language flags from setup.py> -fsyntax-only -Xclang -ast-dump=json engine.cpp`
The dump (~270 MB) is slimmed to the declarations located under the repository and every node is annotated
with its resolved file/line (`_f`, `_l`; Clang prints them only when they change).  The slim AST (~4 MB) is cached
under /verif/.cache keyed by the SHA-256 of sources + flags + clang version; a miss rebuilds from /repo.
"""
import ast as pyast
import fcntl, glob, hashlib, json, os, subprocess, sys, sysconfig

from . import VERIF
from .core import AnalysisError

sys.setrecursionlimit(100000)

WRAPPERS = {"ImplicitCastExpr", "ParenExpr", "MaterializeTemporaryExpr", "ExprWithCleanups",
            "CXXBindTemporaryExpr", "ConstantExpr"}
CASTS = {"CXXFunctionalCastExpr", "CXXStaticCastExpr", "CStyleCastExpr"}


# --------------------------------------------------------------------------------------------- node helpers
def kind(n):
    return n.get("kind") if n else None


def kids(n):
    return [c for c in n.get("inner", []) if c]


def raw_kids(n):
    """children including the empty `{}` slots Clang uses for absent for/if parts"""
    return n.get("inner", [])


def strip(n, casts=False):
    while True:
        k = n.get("kind")
        if k in WRAPPERS or (casts and k in CASTS):
            n = kids(n)[-1]
        else:
            return n


def loc(n):
    r = n.get("range", {}).get("begin", {})
    f, l = r.get("_f"), r.get("_l")
    if f is None:
        lo = n.get("loc", {})
        f, l = lo.get("_f"), lo.get("_l")
    return f, l


def line(n):
    return loc(n)[1]


def walk(n):
    yield n
    for c in n.get("inner", []):
        if c:
            yield from walk(c)


def name_of(n):
    """simple name of a DeclRefExpr / MemberExpr, else None"""
    n = strip(n)
    k = n.get("kind")
    if k == "MemberExpr":
        return n.get("name")
    if k == "DeclRefExpr":
        return n.get("referencedDecl", {}).get("name")
    return None


def is_this_member(n):
    n = strip(n)
    if n.get("kind") != "MemberExpr":
        return False
    b = kids(n)
    return bool(b) and strip(b[0]).get("kind") == "CXXThisExpr"


def subscript(n):
    """(base, index) if n is `base[index]` (vector operator[] or raw pointer subscript) else None"""
    n = strip(n)
    k = n.get("kind")
    if k == "CXXOperatorCallExpr":
        i = kids(n)
        if name_of(i[0]) == "operator[]":
            return i[1], i[2]
    if k == "ArraySubscriptExpr":
        i = kids(n)
        return i[0], i[1]
    return None


def op_call(n):
    """name of the overloaded operator of a CXXOperatorCallExpr ('operator=' ...) else None"""
    n = strip(n)
    if n.get("kind") == "CXXOperatorCallExpr":
        return name_of(kids(n)[0])
    return None


def call_parts(n):
    """(callee-name, object-or-None, [args]) for CallExpr / CXXMemberCallExpr, else None"""
    n = strip(n)
    k = n.get("kind")
    if k == "CXXMemberCallExpr":
        i = kids(n)
        callee = strip(i[0])
        obj = kids(callee)[0] if kids(callee) else None
        return callee.get("name"), obj, i[1:]
    if k == "CallExpr":
        i = kids(n)
        return name_of(i[0]), None, i[1:]
    return None


def text(n):
    """normalised source-like text of an expression / statement head (for reports and keys)"""
    if not n:
        return ""
    k = n.get("kind")
    i = kids(n)
    if k in WRAPPERS:
        return text(i[-1]) if k != "ParenExpr" else "(" + text(i[0]) + ")"
    if k in CASTS:
        return text(i[-1])
    if k == "MemberExpr":
        if i and strip(i[0]).get("kind") == "CXXThisExpr":
            return n["name"]
        return (text(i[0]) + ("->" if n.get("isArrow") else ".") if i else "") + n["name"]
    if k == "DeclRefExpr":
        return n["referencedDecl"].get("name", "?")
    if k in ("IntegerLiteral", "FloatingLiteral"):
        return n["value"]
    if k == "CXXBoolLiteralExpr":
        return "true" if n.get("value") else "false"
    if k == "StringLiteral":
        return n.get("value", '""')
    if k in ("BinaryOperator", "CompoundAssignOperator"):
        return text(i[0]) + " " + n["opcode"] + " " + text(i[1])
    if k == "UnaryOperator":
        return (text(i[0]) + n["opcode"]) if n.get("isPostfix") else n["opcode"] + text(i[0])
    if k == "ConditionalOperator":
        return text(i[0]) + " ? " + text(i[1]) + " : " + text(i[2])
    if k == "CXXOperatorCallExpr":
        op = name_of(i[0])
        if op == "operator[]":
            return text(i[1]) + "[" + text(i[2]) + "]"
        if op == "operator()":
            return text(i[1]) + "(" + ", ".join(text(c) for c in i[2:]) + ")"
        if op == "operator=":
            return text(i[1]) + " = " + text(i[2])
        return str(op) + "(" + ", ".join(text(c) for c in i[1:]) + ")"
    if k in ("CallExpr", "CXXMemberCallExpr"):
        return text(i[0]) + "(" + ", ".join(text(c) for c in i[1:]) + ")"
    if k == "CXXThisExpr":
        return "this"
    if k == "CXXConstructExpr":
        t = n.get("type", {}).get("qualType", "?")
        if len(i) == 1 and kind(strip(i[0])) not in ("IntegerLiteral", "FloatingLiteral"):
            return text(i[0])  # copy / move construction
        return t + "(" + ", ".join(text(c) for c in i) + ")"
    if k == "CXXTemporaryObjectExpr":
        return n.get("type", {}).get("qualType", "?") + "(" + ", ".join(text(c) for c in i) + ")"
    if k == "CXXNewExpr":
        return "new " + n.get("type", {}).get("qualType", "?")
    if k == "CXXDeleteExpr":
        return "delete " + text(i[0])
    if k == "ArraySubscriptExpr":
        return text(i[0]) + "[" + text(i[1]) + "]"
    if k == "InitListExpr" or k == "CXXStdInitializerListExpr":
        return "{" + ", ".join(text(c) for c in i) + "}"
    if k == "ReturnStmt":
        return "return " + (text(i[0]) if i else "")
    if k == "DeclStmt":
        return "; ".join(text(c) for c in i)
    if k == "VarDecl":
        return n.get("type", {}).get("qualType", "") + " " + n.get("name", "?") + (" = " + text(i[-1]) if i else "")
    if k == "IfStmt":
        return "if(" + text(raw_kids(n)[0]) + ")"
    if k == "ForStmt":
        p = raw_kids(n)
        return "for(%s; %s; %s)" % (text(p[0]), text(p[2]), text(p[3]))
    if k == "WhileStmt":
        return "while(" + text(i[0]) + ")"
    if k == "BreakStmt":
        return "break"
    if k == "ContinueStmt":
        return "continue"
    if k in ("CompoundStmt", "InlineBlock"):
        return "{...}"
    if k == "InlineLeave":
        return "return"
    if k == "UnresolvedLookupExpr":
        return n.get("name", "?")
    if k == "CXXDependentScopeMemberExpr":
        return (text(i[0]) + "." if i else "") + n.get("member", "?")
    return "<" + str(k) + ">"


# --------------------------------------------------------------------------------------------- model
class Fn:
    def __init__(self, node, cls=None, extern_c=False, template=False):
        self.node, self.cls, self.extern_c, self.template = node, cls, extern_c, template
        self.name = node.get("name")
        self.qual = (cls.name + "::" if cls else "") + self.name
        self.params = [p for p in kids(node) if p.get("kind") == "ParmVarDecl"]
        body = [c for c in kids(node) if c.get("kind") == "CompoundStmt"]
        self.body = body[0] if body else None
        self.virtual = bool(node.get("virtual"))
        self.pure = bool(node.get("pure"))
        self.ret = node.get("type", {}).get("qualType", "").split("(")[0].strip()
        self.file, self.line = loc(node)

    def param_names(self):
        return [p.get("name") for p in self.params]

    def param_type(self, i):
        return self.params[i].get("type", {}).get("qualType", "")

    def __repr__(self):
        return "<Fn %s>" % self.qual


class Cls:
    def __init__(self, node):
        self.node = node
        self.name = node.get("name")
        self.bases = [b.get("type", {}).get("qualType", "").replace("class ", "") for b in node.get("bases", [])]
        self.fields = {}
        self.field_nodes = {}
        self.methods = {}
        self.dtor = None
        self.ctors = []
        for m in kids(node):
            k = m.get("kind")
            if k == "FieldDecl":
                self.fields[m["name"]] = m.get("type", {}).get("qualType", "")
                self.field_nodes[m["name"]] = m
            elif k == "CXXMethodDecl" and not m.get("isImplicit"):
                self.methods[m["name"]] = Fn(m, self)
            elif k == "CXXDestructorDecl" and not m.get("isImplicit"):
                self.dtor = m
            elif k == "CXXConstructorDecl" and not m.get("isImplicit"):
                self.ctors.append(m)


class TU:
    def __init__(self, decls, meta):
        self.decls, self.meta = decls, meta
        self.classes, self.funcs, self.globals = {}, {}, []
        self.tinst = {}
        for d in decls:
            self._add(d, False)

    def _add(self, d, extern_c):
        k = d.get("kind")
        if k == "CXXRecordDecl" and d.get("completeDefinition"):
            self.classes[d["name"]] = Cls(d)
        elif k == "FunctionDecl":
            if any(c.get("kind") == "CompoundStmt" for c in kids(d)):
                self.funcs[d["name"]] = Fn(d, None, extern_c)
        elif k == "FunctionTemplateDecl":
            pat = [c for c in kids(d) if c.get("kind") == "FunctionDecl"]
            if pat:
                self.funcs[d["name"]] = Fn(pat[0], None, False, template=True)
                # the instantiations carry resolved types: a call names the one it uses by declaration id
                for inst in pat[1:]:
                    if any(c.get("kind") == "CompoundStmt" for c in kids(inst)):
                        self.tinst[inst.get("id")] = Fn(inst, None, False)
        elif k == "LinkageSpecDecl":
            for c in kids(d):
                self._add(c, d.get("language") == "C")
        elif k == "VarDecl":
            self.globals.append(d)

    # --- hierarchy
    def base_chain(self, cname):
        out = []
        c = self.classes.get(cname)
        while c is not None:
            out.append(c)
            c = self.classes.get(c.bases[0]) if c.bases else None
        return out

    def derived(self, cname):
        return [c for c in self.classes.values() if cname in [b.name for b in self.base_chain(c.name)[1:]]]

    def lookup_method(self, cname, mname):
        for c in self.base_chain(cname):
            if mname in c.methods:
                return c.methods[mname]
        return None

    def all_fields(self, cname):
        out = {}
        for c in reversed(self.base_chain(cname)):
            out.update(c.fields)
        return out

    def all_fns(self):
        for f in self.funcs.values():
            yield f
        for c in self.classes.values():
            for m in c.methods.values():
                yield m

    def fn(self, qual):
        if "::" in qual:
            c, m = qual.split("::")
            cls = self.classes.get(c)
            f = cls.methods.get(m) if cls else None
        else:
            f = self.funcs.get(qual)
        if f is None:
            raise AnalysisError("anchor %s not found in the engine translation unit" % qual)
        return f

    def resolve_calls(self, fn, node, concrete=None):
        """callees (Fn list) of a call node inside fn; virtual calls through `this` expand over the overriders
        (or resolve in `concrete`, a derived class name, when given)"""
        cp = call_parts(node)
        if cp is None:
            return []
        nm, obj, args = cp
        n = strip(node)
        if n.get("kind") == "CXXMemberCallExpr":
            if obj is None or strip(obj).get("kind") == "CXXThisExpr":
                start = concrete or (fn.cls.name if fn.cls else None)
                if start is None:
                    return []
                m = self.lookup_method(start, nm)
                if m is None:
                    return []
                if m.virtual and m.body is None and not concrete:
                    return [d.methods[nm] for d in self.derived(m.cls.name) if nm in d.methods]
                if m.virtual and not concrete:
                    outs = [m] + [d.methods[nm] for d in self.derived(m.cls.name) if nm in d.methods]
                    return outs
                return [m]
            # call through an object / pointer expression: use its static class type
            t = strip(obj).get("type", {}).get("qualType", "")
            t = t.replace("*", "").replace("&", "").replace("const", "").replace("class ", "").strip()
            if t in self.classes:
                m = self.lookup_method(t, nm)
                if m is None:
                    return []
                if m.virtual:
                    return ([m] if m.body is not None else []) + \
                           [d.methods[nm] for d in self.derived(t) if nm in d.methods]
                return [m]
            return []
        if nm in self.funcs:
            return [self.funcs[nm]]
        return []


# --------------------------------------------------------------------------------------------- build
def build_info(repo):
    """(engine.cpp path, include dirs, defines, extra args) read from setup.py by ast (never executed)"""
    sp = os.path.join(repo, "setup.py")
    tree = pyast.parse(open(sp, encoding="utf-8").read())
    ext = None
    for n in pyast.walk(tree):
        if isinstance(n, pyast.Call) and getattr(n.func, "id", None) == "Extension":
            ext = n
    if ext is None:
        raise AnalysisError("setup.py: no Extension(...) call found")
    kw = {k.arg: pyast.literal_eval(k.value) for k in ext.keywords}
    return kw


def _resolve_locs(root):
    st = [None, None]

    def bare(l):
        if "spellingLoc" in l or "expansionLoc" in l:
            for k, v in l.items():
                if k in ("spellingLoc", "expansionLoc"):
                    bare(v)
            e = l.get("expansionLoc") or l.get("spellingLoc")
            l["_f"], l["_l"] = e.get("_f"), e.get("_l")
            return
        if "offset" not in l:
            return
        if "file" in l:
            st[0] = l["file"]
        if "line" in l:
            st[1] = l["line"]
        l["_f"], l["_l"] = st[0], st[1]

    def rec(n):
        for k, v in n.items():
            if k == "loc":
                bare(v)
            elif k == "range":
                bare(v["begin"])
                bare(v["end"])
            elif k == "inner":
                for c in v:
                    if c:
                        rec(c)

    rec(root)


def _slim_node(n):
    """drop bulky keys that no rule uses"""
    for k in ("mangledName", "previousDecl", "definitionData"):
        n.pop(k, None)
    for c in n.get("inner", []):
        if c:
            _slim_node(c)


def _digest(files, flags, ver):
    h = hashlib.sha256()
    h.update(("v3|" + " ".join(flags) + "|" + ver).encode())
    for f in files:
        h.update(f.encode())
        h.update(open(f, "rb").read())
    return h.hexdigest()


def load(repo):
    kw = build_info(repo)
    srcs = [os.path.join(repo, s) for s in kw["sources"]]
    incs = [os.path.join(repo, s) for s in kw.get("include_dirs", [])]
    if len(srcs) != 1:
        raise AnalysisError("setup.py: expected one translation unit, found %r" % (srcs,))
    flags = list(kw.get("extra_compile_args", []))
    for d in kw.get("define_macros", []):
        flags.append("-D" + d[0] + ("=" + str(d[1]) if d[1] is not None else ""))
    pyinc = sysconfig.get_paths()["include"]
    if os.path.exists(os.path.join(pyinc, "Python.h")):
        flags.append("-I" + pyinc)
    else:  # the build needs Python.h under CPYEMVER; without the header analyse the engine proper
        flags = [f for f in flags if not f.startswith("-DCPYEMVER")]
    for i in incs:
        flags.append("-I" + i)
    srcdir = os.path.dirname(srcs[0])
    files = sorted(glob.glob(os.path.join(srcdir, "*")))
    files = [f for f in files if f.endswith((".cpp", ".hpp", ".h", ".hh", ".cc", ".cxx"))]
    try:
        ver = subprocess.run(["clang++", "--version"], capture_output=True, text=True).stdout.splitlines()[0]
    except Exception as e:
        raise AnalysisError("clang++ not available: %s" % e)
    dig = _digest(files + [os.path.join(repo, "setup.py")], flags, ver)
    cdir = os.path.join(VERIF, ".cache")
    os.makedirs(cdir, exist_ok=True)
    cpath = os.path.join(cdir, "cx-%s.json" % dig[:32])
    lock = open(os.path.join(cdir, "lock"), "w")
    fcntl.flock(lock, fcntl.LOCK_EX)
    try:
        if os.path.exists(cpath):
            try:
                d = json.load(open(cpath))
                return _mk(d, files, srcdir, cached=True, dig=dig)
            except AnalysisError:
                raise
            except Exception:
                pass
        cmd = ["clang++"] + flags + ["-fsyntax-only", "-Xclang", "-ast-dump=json", srcs[0]]
        r = subprocess.run(cmd, capture_output=True)
        if r.returncode != 0:
            raise AnalysisError("the engine does not parse: " + r.stderr.decode(errors="replace")[:1500])
        root = json.loads(r.stdout)
        del r
        _resolve_locs(root)
        keep = []
        ap = os.path.abspath(srcdir)
        for c in root.get("inner", []):
            f = loc(c)[0]
            if f and os.path.abspath(f).startswith(ap):
                _slim_node(c)
                keep.append(c)
        del root
        d = {"decls": keep, "flags": flags, "clang": ver, "srcdir": srcdir}
        tmp = cpath + ".tmp%d" % os.getpid()
        json.dump(d, open(tmp, "w"))
        os.replace(tmp, cpath)
        for old in glob.glob(os.path.join(cdir, "cx-*.json")):  # keep the cache small
            if old != cpath and os.path.getmtime(old) < os.path.getmtime(cpath) - 6 * 3600:
                try:
                    os.remove(old)
                except OSError:
                    pass
        return _mk(d, files, srcdir, cached=False, dig=dig)
    finally:
        fcntl.flock(lock, fcntl.LOCK_UN)
        lock.close()


def _uniq(f):
    """several locals of one function may share a name (loop counters, block-scoped temporaries): give each
    declaration a unique analysis name `_u` (name, name'2, ...); reports keep the source name"""
    seen = {}
    ids = {}
    for p in f.params:
        seen[p.get("name")] = 1
        ids[p.get("id")] = p.get("name")
    for n in walk(f.body):
        if n.get("kind") == "VarDecl":
            nm = n.get("name")
            k = seen.get(nm, 0) + 1
            seen[nm] = k
            u = nm if k == 1 else "%s'%d" % (nm, k)
            n["_u"] = u
            ids[n.get("id")] = u
    for n in walk(f.body):
        if n.get("kind") == "DeclRefExpr":
            rd = n.get("referencedDecl", {})
            if rd.get("id") in ids:
                rd["_u"] = ids[rd["id"]]
    # single-assignment integer locals defined by pure index arithmetic: candidates for inlining into index
    # polynomials and guard texts (hoisting `int idx = i*n_species+s;` must not change any verdict)
    assigned = set()
    for n in walk(f.body):
        k = n.get("kind")
        tgt = None
        if k in ("BinaryOperator", "CompoundAssignOperator") and (k == "CompoundAssignOperator" or n.get("opcode") == "="):
            tgt = strip(kids(n)[0])
        elif k == "UnaryOperator" and n.get("opcode") in ("++", "--"):
            tgt = strip(kids(n)[0])
        if tgt is not None and tgt.get("kind") == "DeclRefExpr":
            assigned.add(tgt.get("referencedDecl", {}).get("id"))
    # tables written (element stores, compound or plain) anywhere in this function: loads of those are never inlined
    stored_tables = set()
    for n in walk(f.body):
        k = n.get("kind")
        tgt = None
        if k in ("BinaryOperator", "CompoundAssignOperator") and (k == "CompoundAssignOperator" or n.get("opcode") == "="):
            tgt = strip(kids(n)[0])
        elif k == "UnaryOperator" and n.get("opcode") in ("++", "--"):
            tgt = strip(kids(n)[0])
        elif k == "CXXOperatorCallExpr" and name_of(kids(n)[0]) in ("operator=", "operator+=", "operator-="):
            tgt = strip(kids(n)[1])
        while tgt is not None and subscript(tgt) is not None:
            tgt = strip(subscript(tgt)[0])
            if name_of(tgt):
                stored_tables.add(name_of(tgt))
    for n in walk(f.body):
        if n.get("kind") == "VarDecl" and kids(n) and n.get("id") not in assigned and \
                n.get("type", {}).get("qualType") in ("int", "size_t", "const int", "unsigned int", "long"):
            e = strip(kids(n)[-1])
            ok = e.get("kind") == "BinaryOperator" and all(
                x.get("kind") in ("IntegerLiteral", "DeclRefExpr", "MemberExpr", "ImplicitCastExpr", "ParenExpr",
                                  "CXXThisExpr") or (x.get("kind") == "BinaryOperator" and x.get("opcode") in ("+", "-", "*"))
                or (x.get("kind") == "CXXOperatorCallExpr" and name_of(kids(x)[0]) == "operator[]" and
                    name_of(kids(x)[1]) is not None and name_of(kids(x)[1]) not in stored_tables)
                for x in walk(e))
            if ok:
                INLINE[n.get("id")] = e
        # const-qualified scalar temporaries whose initialiser is free of calls and assignments (table loads included):
        # `const double x = mesh_x[...]`, `const int node_a = edge_i[e]`, `const bool inside = (a && b)`
        if n.get("kind") == "VarDecl" and kids(n) and n.get("id") not in assigned and n.get("id") not in INLINE and \
                n.get("storageClass") != "static" and \
                n.get("type", {}).get("qualType") in ("const int", "const double", "const bool", "const size_t",
                                                      "const unsigned int", "const float", "const long"):
            e = strip(kids(n)[-1])
            bad = any(x.get("kind") in ("CallExpr", "CXXMemberCallExpr", "CompoundAssignOperator", "CXXConstructExpr",
                                        "CXXTemporaryObjectExpr", "CXXNewExpr") or
                      (x.get("kind") == "BinaryOperator" and x.get("opcode") == "=") or
                      (x.get("kind") == "UnaryOperator" and x.get("opcode") in ("++", "--")) or
                      (x.get("kind") == "CXXOperatorCallExpr" and name_of(kids(x)[0]) != "operator[]")
                      for x in walk(e))
            if not bad:
                CONST_INLINE[n.get("id")] = e


INLINE = {}
CONST_INLINE = {}


def uname(n):
    """unique analysis name of a DeclRefExpr / VarDecl / MemberExpr"""
    n = strip(n)
    k = n.get("kind")
    if k == "DeclRefExpr":
        rd = n.get("referencedDecl", {})
        return rd.get("_u") or rd.get("name")
    if k == "VarDecl":
        return n.get("_u") or n.get("name")
    if k == "MemberExpr":
        return n.get("name")
    return None


def size_obj(n):
    """obj if n is `obj.size()` (resolved or template-dependent form) else None"""
    n = strip(n)
    k = n.get("kind")
    if k == "CXXMemberCallExpr":
        callee = strip(kids(n)[0])
        if callee.get("name") == "size" and kids(callee):
            return kids(callee)[0]
    if k == "CallExpr":
        callee = strip(kids(n)[0])
        if callee.get("kind") == "CXXDependentScopeMemberExpr" and callee.get("member") == "size" and kids(callee):
            return kids(callee)[0]
    return None


def _drop_comments(n):
    inner = n.get("inner")
    if inner:
        n["inner"] = [c for c in inner if not (c and str(c.get("kind", "")).endswith("Comment"))]
        for c in n["inner"]:
            if c:
                _drop_comments(c)


def _mk(d, files, srcdir, cached, dig):
    for dd in d["decls"]:
        _drop_comments(dd)
    tu = TU(d["decls"], {"flags": d["flags"], "clang": d["clang"], "cached": cached, "digest": dig[:16],
                         "files": [os.path.basename(f) for f in files]})
    # coverage guard: every source file of the engine directory contributes at least one analysed declaration
    seen = set()
    for dd in d["decls"]:
        for n in walk(dd):
            f = loc(n)[0]
            if f:
                seen.add(os.path.abspath(f))
    missing = [f for f in files if os.path.abspath(f) not in seen]
    if missing:
        raise AnalysisError("engine source files not reached by the translation unit: %s" % missing)
    from . import cxinline, inventory, cxnames
    if not os.environ.get("SA_CXNAMES_FREEZE"):
        nlog = []
        cxnames.align(tu, nlog)            # locals written back to the reference spelling (alpha-renaming), before inlining
        tu.meta["renamed"] = nlog
    else:
        cxnames.freeze(tu)
    tu.meta["inlined"] = sorted(set(cxinline.run(tu, inventory.load()[0])))
    from . import cxnorm
    tu.meta["promoted"] = cxnorm.run(tu)
    for f in tu.all_fns():
        if f.body is not None:
            _uniq(f)
    nfn = sum(1 for f in tu.all_fns() if f.body is not None)
    tu.meta["functions"] = nfn
    tu.meta["classes"] = sorted(tu.classes)
    if nfn < 80 or len(tu.classes) < 8:      # coverage guard, not an inventory: a removed function fails the rule that anchors it
        raise AnalysisError("engine front end found %d functions / %d classes (reference: 96 / 8)"
                            % (nfn, len(tu.classes)))
    return tu
