"""RUNSUM -- scalar accumulators of the engine: where is the running value read?

For a local scalar `q` that is reset (declared with an initialiser, or assigned with `=`) and then updated with a compound
assignment inside loops, the loops entered between the reset and the update are the ones it sums over.  A read of `q` inside
one of those loops sees a partial (running) sum.  That is what a prefix sum or a threshold search wants, and a defect when the
total over that loop was meant: hoisting `double q = 0` out of the loop over reactions makes every reaction but the first see
the sum of the orders of all the reactions before it.

The checker lists every such read; the confirmed intentional ones are frozen in INTENDED (one line of reason each)."""
from . import cxfe, cxa
from .cxfe import kids, strip, walk, text, uname

LOOPS = ("ForStmt", "WhileStmt", "DoStmt", "CXXForRangeStmt")


def _scan(fn):
    """events: (kind, var, loop stack (tuple of ids), node) in source order; kind in reset / acc / read"""
    ev = []
    induction = set()

    def expr(n, stack, skip=None):
        """reads inside an expression"""
        for x in walk(n):
            if x.get("kind") == "DeclRefExpr" and x is not skip:
                nm = uname(x)
                if nm:
                    ev.append(("read", nm, tuple(stack), x))

    def stmt(n, stack):
        if n is None:
            return
        k = n.get("kind")
        if k in LOOPS:
            parts = cxfe.raw_kids(n)
            inner = stack + [id(n)]
            if k == "ForStmt":
                init, _, cond, inc, body = (parts + [None] * 5)[:5]
                if init is not None:
                    for v in walk(init):
                        if v.get("kind") == "VarDecl":
                            induction.add(uname(v))
                    stmt(init, stack)
                for p in (cond, inc):
                    if p is not None:
                        stmt(p, inner)
                stmt(body, inner)
            else:
                for p in parts:
                    stmt(p, inner)
            return
        if k in ("CompoundStmt", "IfStmt", "DeclStmt", "SwitchStmt", "CaseStmt", "DefaultStmt"):
            for c in (cxfe.raw_kids(n) if k == "IfStmt" else kids(n)):
                stmt(c, stack)
            return
        if k == "VarDecl":
            if kids(n):
                expr(kids(n)[-1], stack)
                ev.append(("reset", uname(n), tuple(stack), n))
            else:
                ev.append(("decl", uname(n), tuple(stack), n))
            return
        # expression statement
        stores = cxa.stores_of_node(strip(n)) if k in ("BinaryOperator", "CompoundAssignOperator", "UnaryOperator",
                                                       "ExprWithCleanups", "ParenExpr") else []
        handled = False
        into_table = any(s.base and (s.base[0] == "field" or cxfe.subscript(s.target) is not None) for s in stores)
        if into_table:
            for x in walk(n):
                if x.get("kind") == "DeclRefExpr" and uname(x):
                    ev.append(("read-stored", uname(x), tuple(stack), x))
            return
        for s in stores:
            if s.base and s.base[0] == "var" and cxfe.subscript(s.target) is None:
                handled = True
                tgt = strip(s.target, casts=True)
                if s.rhs is not None:
                    expr(s.rhs, stack)
                if s.op == "=":
                    ev.append(("reset", s.base[1], tuple(stack), n))
                else:
                    ev.append(("acc", s.base[1], tuple(stack), n))
        if not handled:
            expr(n, stack)
    stmt(fn.body, [])
    return ev, induction


def findings(tu):
    out = []
    nacc = 0
    for f in tu.all_fns():
        if f.body is None:
            continue
        ev, induction = _scan(f)
        names = {v for k, v, _, _ in ev if k == "acc"} - induction
        for q in sorted(names):
            seq = [(k, st, n) for k, v, st, n in ev if v == q]
            last_reset = None
            summed = set()
            for k, st, n in seq:
                if k in ("reset", "decl"):
                    last_reset = st
                    summed = set()
                elif k == "acc":
                    nacc += 1
                    if last_reset is None:
                        continue
                    if st[:len(last_reset)] == last_reset:
                        summed |= set(st[len(last_reset):])
                elif k in ("read", "read-stored"):
                    hit = [l for l in st if l in summed]
                    if hit:
                        out.append({"fn": f.qual, "var": q, "node": n, "stored": k == "read-stored",
                                    "text": "%s read inside a loop it is accumulated over" % q})
    return out, nacc


# a deliberately stored prefix sum (offset table) would be listed here with its reason: (function, variable) -> reason
INTENDED_STORES = {}


def rule(ctx, R, tu):
    """a running value that only steers a search (compared with a threshold, handed on as the residual of one) is the point of
    a cumulative search; a running value written into a table or a member is a total that was not reset"""
    import re
    out, nacc = findings(tu)
    seen = set()
    for o in out:
        var = re.sub(r"'\\d+$", "", o["var"])
        key = (o["fn"], var, o["stored"])
        if key in seen:
            continue
        seen.add(key)
        if not o["stored"]:
            ctx.ok(R, o["node"], o["fn"], "running value of `%s` steers a search (compared / passed on, never stored)" % var,
                   "cumulative threshold search", nontrivial=False)
        elif (o["fn"], var) in INTENDED_STORES:
            ctx.ok(R, o["node"], o["fn"], "running value of `%s` stored" % var, "intended: " + INTENDED_STORES[(o["fn"], var)],
                   nontrivial=False)
        else:
            ctx.violation(R, o["node"], o["fn"], "running value of `%s` stored inside a loop it accumulates over" % var,
                          "`%s` is not reset inside that loop, so what is written there is the sum over all the passes made so far, "
                          "not the total of the current one (a hoisted `%s = 0`?): every pass after the first stores a wrong value"
                          % (var, var))
    ctx.ok(R, None, "engine", "%d compound updates of local scalars examined" % nacc, "no running sum is written into a table")
    ctx.need(nacc >= 10, R, "only %d accumulator updates found in the engine" % nacc)
    ctx.floor(R, 1)
