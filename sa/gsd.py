"""Roles of the local vectors of GenerateStochasticDistribution, found by what they are computed from (not by their names):
   real total  -- accumulated by += from the function's input state (first parameter), then floored
   drawn total -- accumulated by += from the drawn state (the vector the function returns)
   difference  -- assigned drawn total - real total
The canonical names are the ones of the pinned tree, so that tables keyed by them stay readable."""
from .cxfe import kids, strip, walk, name_of, subscript, uname
from . import cxa

CANON = {"real": "tot_species", "drawn": "tot2_species", "diff": "dtot_species"}


def roles(f):
    """actual local name -> canonical name"""
    out = {}
    state_in = f.param_names()[0] if f.param_names() else None
    ret = None
    for n in walk(f.body):
        if n.get("kind") == "ReturnStmt" and kids(n):
            for y in walk(kids(n)[0]):
                if y.get("kind") == "DeclRefExpr":
                    ret = uname(y) or name_of(y)
    for s_ in cxa.all_stores(f.body):
        if s_.op == "+=" and s_.base and s_.base[0] == "var" and subscript(s_.target) is not None and s_.rhs is not None:
            srcs = {name_of(strip(subscript(y)[0], casts=True)) for y in walk(s_.rhs) if subscript(y) is not None}
            if srcs == {state_in}:
                out[s_.base[1]] = CANON["real"]
            elif ret is not None and srcs == {ret.split("'")[0]} or srcs == {ret}:
                out[s_.base[1]] = CANON["drawn"]
    for s_ in cxa.all_stores(f.body):
        if s_.op == "=" and s_.base and s_.base[0] == "var" and subscript(s_.target) is not None and s_.rhs is not None:
            r = strip(s_.rhs, casts=True)
            if r.get("kind") == "BinaryOperator" and r.get("opcode") == "-":
                a, b = [subscript(strip(k_, casts=True)) for k_ in kids(r)]
                if a is not None and b is not None:
                    na, nb = name_of(strip(a[0], casts=True)), name_of(strip(b[0], casts=True))
                    if out.get(na) == CANON["drawn"] and out.get(nb) == CANON["real"]:
                        out[s_.base[1]] = CANON["diff"]
    return out
