"""GVN / SIB -- the four implementations of the interface diffusion constant (kinetics grid and graph,
Build_mesh_kd 3D and Graph) as rational functions over role-identified leaves, compared by exact normal form.

Leaves are identified by what they read: D at the environment of the source / destination cell -> Di / Dj;
the volume at the source / destination -> Vi / Vj; the edge's surface / distance -> S / d; X**(1/3) and
pow(X, 1.0/3.0) -> cbrt(X).  Grid specialisation: cbrt(Vi) = cbrt(Vj) = h, S = h*h, d = h, V = h^3."""
import ast
from fractions import Fraction

from . import cxfe, cxa, pyfe
from .cxfe import kids, strip, walk, text, subscript, uname, call_parts, name_of
from .core import AnalysisError
from .poly import Poly, Rat

S_ = Rat.sym


class NotFormula(Exception):
    pass


# ------------------------------------------------------------------------------------------------ C++ side
def is_third(e):
    e = strip(e, casts=True)
    if e.get("kind") == "BinaryOperator" and e.get("opcode") == "/":
        a, b = strip(kids(e)[0], casts=True), strip(kids(e)[1], casts=True)
        try:
            return Fraction(a.get("value", "x")) == 1 and Fraction(b.get("value", "x")) == 3
        except Exception:
            return False
    return False


class CxFormulas:
    def __init__(self, tu, cls):
        self.tu, self.cls = tu, cls
        self.f = tu.fn(cls + "::Build_mesh_kd")
        self.env = {}
        self.stores = {}       # table -> [(Rat, guards, node)]
        self.guards_of = {}    # local -> list of (facts) where assigned a formula
        self.zero_default = {}
        self.cellvars = {}
        self.alias = {}
        self._roles()
        self._run(self.f.body, [])

    def _roles(self):
        """source cell = the cell-kind loop variable indexing the neighbour table; destination = local defined from it"""
        for n in walk(self.f.body):
            if n.get("kind") == "VarDecl" and kids(n):
                init = strip(kids(n)[-1], casts=True)
                sub = subscript(init)
                if sub is not None:
                    base = sub[0]
                    inner = subscript(base)
                    b = cxa.lvalue_base(inner[0] if inner else base)
                    if b and b[1] in ("mesh_neighbors", "mesh_neighbor_index"):
                        self.cellvars[uname(n)] = "j"
                        self.cellvars[cxa.canon(init)] = "j"      # a const local is written out by the canonicaliser
                        if inner:
                            src = cxa.canon(inner[1])
                            self.nbrvar = cxa.canon(sub[1])
                        else:
                            p = cxa.poly(sub[1])
                            src = None
                            for m, c in p.t.items():
                                if c == 6 and len(m) == 1:
                                    src = m[0][0]
                                elif c == 1 and len(m) == 1:
                                    self.nbrvar = m[0][0]
                        if src is None:
                            raise AnalysisError("%s: neighbour lookup form not recognised" % self.f.qual)
                        self.cellvars[src] = "i"
        if sorted(set(self.cellvars.values())) != ["i", "j"]:
            raise AnalysisError("%s: source / destination cells not identified" % self.f.qual)

    def role(self, cell_text):
        r = self.cellvars.get(cell_text)
        if r is None:
            raise NotFormula("cell %s is neither the source nor the destination" % cell_text)
        return r

    def leaf(self, n):
        n = strip(n, casts=True)
        sub = subscript(n)
        if sub is not None:
            inner = subscript(sub[0])
            b = cxa.lvalue_base(inner[0] if inner else sub[0])
            if b is None:
                raise NotFormula(text(n))
            t = b[1]
            if t == "D" and not inner:
                p = cxa.poly(sub[1])
                envs = [a for m in p.t for a, _ in m if a.startswith("mesh_env[")]
                if len(envs) == 1:
                    return S_("D" + self.role(envs[0][len("mesh_env["):-1]))
            if t == "mesh_vol" and not inner:
                return S_("V" + self.role(cxa.canon(sub[1])))
            if t in ("mesh_neighbor_sfc", "mesh_neighbor_dst") and inner:
                if self.role(cxa.canon(inner[1])) == "i" and cxa.canon(sub[1]) == self.nbrvar:
                    return S_("S" if t.endswith("sfc") else "d")
            raise NotFormula("table read " + text(n))
        nm = uname(n) if n.get("kind") in ("DeclRefExpr", "MemberExpr") else None
        if nm is not None:
            if nm in self.env:
                return self.env[nm]
            if nm == "mesh_vol":
                return S_("V")
            if nm == "mesh_edge":
                return S_("cbrt(V)")
            raise NotFormula("name " + nm)
        raise NotFormula(text(n))

    def ex(self, n):
        n = strip(n, casts=True)
        k = n.get("kind")
        if k in ("IntegerLiteral", "FloatingLiteral"):
            return Rat.const(Fraction(n["value"]))
        if k == "BinaryOperator" and n["opcode"] in "+-*/":
            l, r = self.ex(kids(n)[0]), self.ex(kids(n)[1])
            return {"+": l + r, "-": l - r, "*": l * r, "/": l / r}[n["opcode"]]
        if k == "CallExpr" and name_of(kids(n)[0]) == "pow" and is_third(kids(n)[2]):
            b = self.ex(kids(n)[1])
            if len(b.syms()) == 1 and b.equals(Rat.sym(list(b.syms())[0])):
                return S_("cbrt(%s)" % list(b.syms())[0])
            raise NotFormula("cube root of a compound expression")
        return self.leaf(n)

    def _run(self, s, guards):
        k = s.get("kind")
        if k == "CompoundStmt":
            g = list(guards)
            for c in kids(s):
                if c.get("kind") == "IfStmt":
                    p = cxfe.raw_kids(c)
                    then = p[1]
                    t = then if then.get("kind") != "CompoundStmt" else then
                    if any(x.get("kind") == "ContinueStmt" for x in kids(t) or [t]) and len(p) < 3:
                        self._run(then, g + cxa.cfacts(p[0], True))
                        g = g + cxa.cfacts(p[0], False)
                        continue
                self._run(c, g)
        elif k == "ForStmt":
            self._run(cxfe.raw_kids(s)[4], guards)
        elif k == "IfStmt":
            p = cxfe.raw_kids(s)
            self._run(p[1], guards + cxa.cfacts(p[0], True))
            if len(p) > 2 and p[2]:
                self._run(p[2], guards + cxa.cfacts(p[0], False))
        elif k == "DeclStmt":
            for v in kids(s):
                if v.get("kind") == "VarDecl" and kids(v):
                    try:
                        self.alias[uname(v)] = cxa.canon(kids(v)[-1])      # a const local is written out in the facts
                    except Exception:
                        pass
                    try:
                        val = self.ex(kids(v)[-1])
                        self.env[uname(v)] = val
                        if val.iszero():
                            self.zero_default[uname(v)] = True
                    except NotFormula:
                        pass
        else:
            for st in cxa.stores_of_node(strip(s)):
                if st.op != "=" or st.base is None:
                    continue
                try:
                    val = self.ex(st.rhs)
                except NotFormula:
                    continue
                if st.base[0] == "var":
                    # guarded redefinition  X = 0; if(g) X = f  : keep the formula, remember the guard
                    self.guards_of.setdefault(st.base[1], []).append((frozenset(guards), val, st.node))
                    self.env[st.base[1]] = val
                elif st.base[0] == "field":
                    self.stores.setdefault(st.base[1], []).append((val, frozenset(guards), st.node))


# ------------------------------------------------------------------------------------------------ Python side
class PyFormulas:
    def __init__(self, py):
        from . import pynorm
        self.f = pynorm.delocalised(py.fn("kinetics.compute_diffusion_rates"))      # `space = system.space` written out
        self.defs = {}
        for n in ast.walk(self.f):
            if isinstance(n, ast.Assign) and len(n.targets) == 1:
                t = n.targets[0]
                if isinstance(t, ast.Name):
                    self.defs.setdefault(t.id, []).append(n.value)
                elif isinstance(t, ast.Tuple) and isinstance(n.value, ast.Tuple):
                    for a, b in zip(t.elts, n.value.elts):
                        if isinstance(a, ast.Name):
                            self.defs.setdefault(a.id, []).append(b)
        self.branch = {}
        for n in ast.walk(self.f):
            from . import pysym
            tsrc = pysym.isrc(n.test, self.f) if isinstance(n, ast.If) else ""
            if isinstance(n, ast.If) and "type(system.space) == " in tsrc:
                which = "graph" if "RDGraphSpace" in tsrc else "grid"
                if any(isinstance(x, ast.Return) for x in n.body) and which not in self.branch:
                    self.branch[which] = n
                for o in n.orelse:
                    if isinstance(o, ast.If) and "RDGridSpace" in pysym.isrc(o.test, self.f) and any(isinstance(x, ast.Return) for x in o.body):
                        self.branch["grid"] = o
        if set(self.branch) != {"graph", "grid"}:
            raise AnalysisError("compute_diffusion_rates: graph / grid branches not found")

    def depends(self, name, seen=None):
        seen = seen or set()
        out = set()
        for d in self.defs.get(name, []):
            for x in ast.walk(d):
                if isinstance(x, ast.Name) and x.id not in seen:
                    out.add(x.id)
                    out |= self.depends(x.id, seen | {name, x.id})
        return out

    def side(self, name):
        dep = self.depends(name) | {name}
        s, d = "src_position_index" in dep or "src_position" in dep, "dst_position_index" in dep or "dst_position" in dep
        if s and not d:
            return "i"
        if d and not s:
            return "j"
        return None

    def formulas(self, which):
        body = self.branch[which].body
        env = {}
        guards = {}
        zero_default = {}

        def leaf(e):
            s = pyfe.src(e)
            if isinstance(e, ast.Name):
                if e.id in env:
                    return env[e.id]
                if e.id in ("Di", "Dj"):
                    r = self.side(e.id)
                    if r is None:
                        raise NotFormula("%s does not depend on exactly one of source / destination" % e.id)
                    return S_("D" + r)
                raise NotFormula("name " + e.id)
            if isinstance(e, ast.Attribute) and e.attr == "value":
                return leaf(e.value)
            if isinstance(e, ast.Call) and s.startswith("volumes.get_at("):
                a = pyfe.src(e.args[0])
                if "volumes" in self.defs or True:
                    return S_("V" + ("i" if a.startswith("src") else "j" if a.startswith("dst") else "?"))
            ev = e.value if isinstance(e, ast.Attribute) else None
            if isinstance(ev, ast.Name):
                real = [d_ for d_ in self.defs.get(ev.id, ()) if not (isinstance(d_, ast.Constant) and d_.value is None)]
                if len(real) == 1:
                    ev = real[0]          # edge = system.space.get_edge(...); edge.surface  (an `edge = None` default aside)
            if isinstance(e, ast.Attribute) and e.attr in ("surface", "distance") and isinstance(ev, ast.Call) and \
                    pyfe.call_name(ev).endswith("get_edge"):
                args = [pyfe.src(a) for a in ev.args]
                if sorted(args) == ["dst_position_index", "src_position_index"]:
                    return S_("S" if e.attr == "surface" else "d")
            if s == "system.space.cell_vol":
                return S_("V")
            raise NotFormula(s)

        def ex(e):
            if isinstance(e, ast.Constant) and isinstance(e.value, (int, float)):
                return Rat.const(Fraction(e.value))
            if isinstance(e, ast.BinOp):
                if isinstance(e.op, ast.Pow):
                    es = pyfe.src(e.right).replace(" ", "")
                    if es in ("(1/3)", "1/3"):
                        b = ex(e.left)
                        if len(b.syms()) == 1 and b.equals(Rat.sym(list(b.syms())[0])):
                            return S_("cbrt(%s)" % list(b.syms())[0])
                        raise NotFormula("cube root of a compound expression")
                    if isinstance(e.right, ast.Constant) and isinstance(e.right.value, int) and e.right.value >= 0:
                        b = ex(e.left)
                        r = Rat.const(1)
                        for _ in range(e.right.value):
                            r = r * b
                        return r
                    raise NotFormula("power " + es)
                l, r = ex(e.left), ex(e.right)
                if isinstance(e.op, ast.Add):
                    return l + r
                if isinstance(e.op, ast.Sub):
                    return l - r
                if isinstance(e.op, ast.Mult):
                    return l * r
                if isinstance(e.op, ast.Div):
                    return l / r
            if isinstance(e, ast.Call) and pyfe.call_name(e) == "UnitValue" and e.args and \
                    isinstance(e.args[0], ast.Constant) and str(e.args[0].value).strip().startswith("0"):
                return Rat.const(0)
            return leaf(e)

        def run(stmts, g):
            for st in stmts:
                if isinstance(st, ast.Assign) and len(st.targets) == 1 and isinstance(st.targets[0], ast.Name):
                    try:
                        v = ex(st.value)
                    except NotFormula:
                        continue
                    nm = st.targets[0].id
                    if v.iszero():
                        zero_default[nm] = True
                    else:
                        guards.setdefault(nm, []).append((frozenset(g), st))
                    env[nm] = v
                elif isinstance(st, ast.If):
                    from . import pya
                    run(st.body, g + pya.atoms(st.test, True))
                    run(st.orelse, g + pya.atoms(st.test, False))
        run(body, [])
        return env, guards, zero_default


# ------------------------------------------------------------------------------------------------ checks
GRID_SUBST = None


def grid_subst():
    h = S_("h")
    return {"cbrt(Vi)": h, "cbrt(Vj)": h, "cbrt(V)": h, "Vi": h * h * h, "Vj": h * h * h, "V": h * h * h,
            "S": h * h, "d": h}


SWAP = {"Di": S_("Dj"), "Dj": S_("Di"), "Vi": S_("Vj"), "Vj": S_("Vi"), "cbrt(Vi)": S_("cbrt(Vj)"),
        "cbrt(Vj)": S_("cbrt(Vi)")}


def nonzero_guard(facts, py=False, alias=None):
    """do the facts contain both `Di != 0` and `Dj != 0` (in either language's canonical form)?"""
    ok = 0
    for d in ("Di", "Dj"):
        names = [d] + ([alias[d]] if alias and d in alias else [])
        for t, pol in facts:
            if not isinstance(t, str) or pol is not False:
                continue
            tt = t.replace(".value", "")
            if any(tt in ("%s == 0" % d_, "0 == %s" % d_) for d_ in names):
                ok += 1
                break
    return ok == 2


def check_antisym(ctx, tu):
    """C++-only facts used by C02: symmetry of the interface diffusivity, kd_in = kd_out with volumes exchanged"""
    out = []
    g = CxFormulas(tu, "SimulationAlgorithmGraphBase")
    t = CxFormulas(tu, "SimulationAlgorithm3DBase")
    ko = [x for x in g.stores.get("mesh_kd_out", []) if not x[0].iszero()]
    ki = [x for x in g.stores.get("mesh_kd_in", []) if not x[0].iszero()]
    if len(ko) != 1 or len(ki) != 1:
        raise AnalysisError("graph Build_mesh_kd: kd_out / kd_in formulas not extracted")
    out.append((ko[0][0].subs(SWAP).equals(ki[0][0]), ki[0][2], g.f.qual, "kd_in = kd_out with source and destination exchanged",
                "what flows back across an interface uses the same formula seen from the other cell",
                "kd_in is not kd_out under i <-> j: the two directed fluxes of one interface are inconsistent"))
    out.append((ko[0][0].subs({"Vi": S_("Vj")}).equals(ki[0][0]), ki[0][2], g.f.qual,
                "kd_in differs from kd_out only in the dividing volume", "same interface diffusivity, surface and distance",
                "kd_in and kd_out differ in more than the volume they are divided by: the amount leaving one cell is not "
                "the amount entering the other"))
    k3 = [x for x in t.stores.get("mesh_kd", []) if not x[0].iszero()]
    if len(k3) != 1:
        raise AnalysisError("3D Build_mesh_kd: kd formula not extracted")
    out.append((k3[0][0].subs(SWAP).equals(k3[0][0]), k3[0][2], t.f.qual, "3D interface constant symmetric under Di <-> Dj",
                "both cells see the same constant", "the 3D diffusion constant is not symmetric in the two cells' "
                "coefficients: the flux i -> j differs from the flux j -> i for equal amounts"))
    return out


def check_sib(ctx, tu, py):
    out = []
    g = CxFormulas(tu, "SimulationAlgorithmGraphBase")
    t = CxFormulas(tu, "SimulationAlgorithm3DBase")
    pf = PyFormulas(py)
    envG, guardsG, zG = pf.formulas("graph")
    envR, guardsR, zR = pf.formulas("grid")
    for need in ("kf", "kr"):
        if need not in envG:
            raise AnalysisError("kinetics graph branch: formula of %s not extracted" % need)
    if "k" not in envR:
        raise AnalysisError("kinetics grid branch: formula of k not extracted")
    ko = [x for x in g.stores.get("mesh_kd_out", []) if not x[0].iszero()][0]
    ki = [x for x in g.stores.get("mesh_kd_in", []) if not x[0].iszero()][0]
    k3 = [x for x in t.stores.get("mesh_kd", []) if not x[0].iszero()][0]
    f = pf.f
    out.append((ko[0].equals(envG["kf"]), ko[2], g.f.qual, "C++ graph kd_out == kinetics graph forward constant",
                "same rational function of (Di, Dj, Vi, Vj, S, d)", "the engine's graph diffusion constant %r differs from the "
                "kinetics formula %r" % (ko[0], envG["kf"])))
    out.append((ki[0].equals(envG["kr"]), ki[2], g.f.qual, "C++ graph kd_in == kinetics graph reverse constant",
                "same rational function", "the engine's reverse constant differs from the kinetics formula"))
    gs = grid_subst()
    out.append((k3[0].subs(gs).equals(envR["k"].subs(gs)), k3[2], t.f.qual, "C++ 3D kd == kinetics grid constant",
                "same rational function of (Di, Dj, h)", "the engine's grid diffusion constant %r differs from the kinetics "
                "formula %r" % (k3[0].subs(gs), envR["k"].subs(gs))))
    out.append((envG["kf"].subs(gs).equals(envR["k"].subs(gs)), f, f._qual, "graph formula under S = h^2, d = h, V = h^3 == grid formula",
                "a grid and its graph have the same rate law", "the graph formula does not reduce to the grid formula on a "
                "regular grid"))
    out.append((envR["k"].subs(SWAP).equals(envR["k"]), f, f._qual, "grid constant symmetric under Di <-> Dj", "", "not symmetric"))
    out.append((envG["kf"].subs(SWAP).equals(envG["kr"]), f, f._qual, "kinetics forward constant under i <-> j == reverse constant", "", ""))
    # zero guards: the formula is used only where both coefficients are non-zero, 0 otherwise
    for cf in (g, t):
        gl = cf.guards_of.get("Dij", [])
        ok = len(gl) == 1 and nonzero_guard(gl[0][0], alias=cf.alias) and cf.zero_default.get("Dij")
        out.append((ok, gl[0][2] if gl else cf.f.node, cf.f.qual, "Dij = 0 unless Di != 0 and Dj != 0", "zero if either is zero",
                    "the harmonic mean is evaluated although a coefficient may be zero (division by zero / non-zero flux "
                    "through a wall)"))
    for which, guards, z, nm in (("graph", guardsG, zG, "Dij"), ("grid", guardsR, zR, "k")):
        gl = guards.get(nm, [])
        ok = len(gl) == 1 and nonzero_guard(gl[0][0]) and z.get(nm)
        out.append((ok, gl[0][1] if gl else f, f._qual, "kinetics %s: %s = 0 unless Di != 0 and Dj != 0" % (which, nm), "", "the "
                    "kinetics %s formula is evaluated with a zero coefficient" % which))
    # mesh_edge is the cube root of the cell volume
    init = tu.fn("SimulationAlgorithm3DBase::Init")
    ok = False
    for s in cxa.all_stores(init.body):
        if s.base == ("field", "mesh_edge"):
            r = strip(s.rhs, casts=True)
            cp = call_parts(r)
            ok = bool(cp) and cp[0] == "pow" and uname(strip(cp[2][0], casts=True)) == "mesh_vol" and is_third(cp[2][1])
            out.append((ok, s.node, init.qual, "mesh_edge = pow(mesh_vol, 1.0/3.0)", "h = cbrt(V)", "the cell edge is not the "
                        "cube root of the cell volume"))
    return out
