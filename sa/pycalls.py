"""Call shapes written back to the reference spelling.

Passing an argument by position or by keyword is one call; so is `f(a, units=u)` and `f(a, u)`.  Many rules read a call site by
argument position or by the text of its argument list, so before any rule runs the calls of every function are aligned with the
calls the same function makes on the reference tree (sa/callshapes.json: per function, in source order, the callee and how many
arguments it passes by position and which by keyword -- a frozen table, regenerated only with `python -m sa.pycalls freeze`).
A call whose callee has one known signature in the package, and whose shape differs from the aligned reference call, is rewritten
to the reference shape: the same argument expressions, bound to the same parameters, in the same order of evaluation (a rewriting
that would reorder argument expressions with calls in them is not made).  Everything else is left alone."""
import ast
import difflib
import json
import os

TABLE = os.path.join(os.path.dirname(os.path.abspath(__file__)), "callshapes.json")
_table = None


def table():
    global _table
    if _table is None:
        try:
            _table = json.load(open(TABLE))
        except Exception:
            _table = {}
    return _table


def signatures(trees):
    """callee key -> parameter names, for module-level functions and classes (bare name) and methods ('.name'), when the whole
    package gives the key exactly one signature"""
    cand = {}

    def add(key, f, skip_self):
        a = f.args
        if a.vararg or a.kwarg or a.posonlyargs or a.kwonlyargs:
            cand.setdefault(key, []).append(None)
            return
        ps = [x.arg for x in a.args]
        cand.setdefault(key, []).append(tuple(ps[1:] if skip_self else ps))
    for t in trees:
        for n in t.body:
            if isinstance(n, ast.FunctionDef):
                add(n.name, n, False)
            elif isinstance(n, ast.ClassDef):
                init = [c for c in n.body if isinstance(c, ast.FunctionDef) and c.name == "__init__"]
                if init:
                    add(n.name, init[0], True)
                for c in n.body:
                    if isinstance(c, ast.FunctionDef) and not c.name.startswith("__"):
                        static = any(ast.unparse(d) == "staticmethod" for d in c.decorator_list)
                        add("." + c.name, c, not static)
    return {k: list(v[0]) for k, v in cand.items() if len(set(v)) == 1 and v[0] is not None}


def _key(call):
    f = call.func
    if isinstance(f, ast.Name):
        return f.id
    if isinstance(f, ast.Attribute):
        return "." + f.attr
    return "?"


def _calls(f):
    """Call nodes of f itself in source order (nested definitions excluded)"""
    out = []

    def rec(n):
        for c in ast.iter_child_nodes(n):
            if isinstance(c, (ast.FunctionDef, ast.AsyncFunctionDef, ast.ClassDef, ast.Lambda)):
                continue
            if isinstance(c, ast.Call):
                out.append(c)
            rec(c)
    rec(f)
    return out


def _shape(c):
    return [_key(c), len(c.args), [k.arg for k in c.keywords]]


def _pure(e):
    return not any(isinstance(x, (ast.Call, ast.Await, ast.Yield, ast.YieldFrom, ast.NamedExpr)) for x in ast.walk(e))


def align(tree, modname, sigs, log=None):
    from . import pynames
    ref = table()
    if not ref:
        return 0
    done = 0
    for q, f in pynames.functions(tree, modname):
        R = ref.get(q)
        if not R:
            continue
        C = _calls(f)
        ck = [_key(c) for c in C]
        rk = [r[0] for r in R]
        for tag, i1, i2, j1, j2 in difflib.SequenceMatcher(a=rk, b=ck, autojunk=False).get_opcodes():
            if tag != "equal":
                continue
            for r_, c in zip(R[i1:i2], C[j1:j2]):
                if _shape(c) == r_ or r_[0] not in sigs:
                    continue
                if any(isinstance(a, ast.Starred) for a in c.args) or any(k.arg is None for k in c.keywords):
                    continue
                sig = sigs[r_[0]]
                if len(c.args) > len(sig) or any(k.arg not in sig for k in c.keywords):
                    continue
                roles = [(sig[i], a) for i, a in enumerate(c.args)] + [(k.arg, k.value) for k in c.keywords]
                names = [p for p, _ in roles]
                if len(set(names)) != len(names):
                    continue
                by = dict(roles)
                npos = r_[1]
                if npos > len(sig) or any(p not in by for p in sig[:npos]):
                    continue
                rest = [p for p in r_[2] if p in by and p not in sig[:npos]] + \
                    [p for p in sig if p in by and p not in sig[:npos] and p not in r_[2]]
                new_order = list(sig[:npos]) + rest
                if set(new_order) != set(names):
                    continue
                if new_order != names and not all(_pure(v) for _, v in roles):
                    continue            # the rewriting would reorder argument expressions that may have effects
                c.args = [by[p] for p in sig[:npos]]
                c.keywords = [ast.keyword(arg=p, value=by[p]) for p in rest]
                done += 1
                if log is not None:
                    log.append((q, "call of %s written in its reference shape" % r_[0].lstrip(".")))
    return done


def freeze(repo):
    import warnings
    from . import pynames
    out = {}
    d = os.path.join(repo, "src", "strengths")
    for fn in sorted(os.listdir(d)):
        if not fn.endswith(".py"):
            continue
        with warnings.catch_warnings():
            warnings.simplefilter("ignore")
            tree = ast.parse(open(os.path.join(d, fn), "rb").read().decode("utf-8"))
        for q, f in pynames.functions(tree, fn[:-3]):
            shapes = [_shape(c) for c in _calls(f)]
            if shapes:
                out[q] = shapes
    json.dump(out, open(TABLE, "w"), indent=0, sort_keys=True)
    return len(out)


if __name__ == "__main__":
    import sys
    if len(sys.argv) > 1 and sys.argv[1] == "freeze":
        print("functions with calls:", freeze(sys.argv[2] if len(sys.argv) > 2 else os.environ.get("SA_REPO", "/repo")))
