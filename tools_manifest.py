"""Regenerates MANIFEST.json from the table below (run: /venv/bin/python tools_manifest.py)."""
import json, os, importlib, sys
sys.path.insert(0, os.path.dirname(os.path.abspath(__file__)))

BASE = ("cd /repo && /venv/bin/python -m pytest -ra -q -p no:cacheprovider --timeout=900 "
        "--continue-on-collection-errors")
TRUST = ("Trusted base: CPython's ast, Clang 14's parser and type resolution, the frozen tables in sa/ (each entry "
         "with its reason). Assumes the engine is built from the same sources with the flags in setup.py. ")

# property -> (claim text, technique, undecided clauses, design ref)
CLAIMS = {}

def claim(pid, text, technique, undecided, ref):
    CLAIMS[pid] = (text, technique, undecided, ref)

claim("C10",
      "Every path of finalize that deletes marks the object freed and every allocation clears the mark; every export "
      "that dereferences a global algorithm pointer is dominated by the liveness test; completion is set only by "
      "FlagAsComplete / cleared only by Init and each Iterate writes simulation state only where `complete` is known "
      "false; getter exports have no write effect; every loop of the translation unit is counted, monotone-counter "
      "or clock-bounded; per-run attributes of LibRDEngine are reset on every path of setup; namespace-scope mutable "
      "state is inventoried (isolation). Decided for all paths of the named functions, not for sampled call histories.",
      "static analysis: path-fact engine over a structured IR of the Clang AST (pairing on all paths, dominating "
      "guards), effect inventory over the call graph, loop-form classification, Python ast definite-assignment",
      "completion after ceil(t_max/dt) steps; absence of hangs beyond loop forms (the Python driver loop is value-level)",
      "DESIGN.md section 6 C10")

claim("C11",
      "Every vector / pointer subscript of the engine (292) is a mixed-radix form over typed index kinds whose range "
      "equals the table's allocation extent, with one layout per table; ragged rows are sized by the paired "
      "neighbour count; subscripts inside && / || conditions are evaluated after the bound tests on their index; "
      "every std::poisson_distribution is constructed under mean > 0; neighbour-table values (-1 sentinel) are used "
      "as indices only under a != -1 test (or a non-zero count whose writer invariant is checked); polymorphic bases "
      "have virtual destructors; scalar locals are definitely assigned; the ctypes boundary agrees in arity, types, "
      "restype, export list and buffer extents; delete / dereference are guarded by the liveness flag on all paths.",
      "static analysis: index-kind typing and mixed-radix layout inference over the Clang AST (IDX), must-fact "
      "dataflow for dominating guards, ctypes/C signature and buffer-extent agreement (FFI)",
      "int overflow of extent products; IEEE division by zero; validity of input index data (mesh_env, edge endpoints: "
      "assumed, C20's subject); Gillespie's selected-channel-has-positive-propensity arithmetic",
      "DESIGN.md section 6 C11")

claim("C14",
      "Every definition of the cell-major initial state that reaches Init in both initialize exports derives from the "
      "species-major input through SpeciesFirstToMeshFirstArray (layout dataflow over all branches); the mode x engine "
      "decision table (5 modes + unknown x 3 engines, both exports) selects the documented branch; every mode RDScript "
      "accepts is compared by both exports; local generators and GenerateStochasticDistribution are seeded with `seed`.",
      "static analysis: vector-layout dataflow on the path-fact engine (VLAY over IDX layouts), concrete evaluation of "
      "the CompareStr if-chain over the finite mode x engine table, string-table agreement Python <-> C++",
      "totals, non-negativity, zero-stays-zero, the Poisson law, termination of the redistribution loop",
      "DESIGN.md section 6 C14")

claim("C12",
      "For the 12 reader / writer pairs: every emitted key is accepted by the reader, every constructor parameter is "
      "wired from a dictionary key in the reader and written from the matching attribute in the writer under an "
      "alias of the same key, consumed keys are canonical, synonym rows are disjoint; every name and self-attribute "
      "in the serialisation layer resolves (star-import closure), standard-library calls bind against their "
      "signatures; every file-reference branch resolves through get_path_with_base(.., base_path), load_* pass the "
      "file's directory, children receive base_path, the trajectory data file is referenced relatively; emitted "
      "\"type\" values are the dispatched ones.",
      "static analysis: ast-based key-table extraction and set agreement (SCHEMA), name / attribute resolution with "
      "star-import closure (RES), inspect.signature binding of stdlib calls, def-use checks for base-path resolution",
      "equality of content after a round trip (values, conversions of printed quantities, float text)",
      "DESIGN.md section 6 C12")

claim("C15",
      "Each branch of is_within_bounds entails 0 <= c < extent for every coordinate it accepts (truth-table "
      "entailment), and get_cell_index / get_cell_coordinates return only after it held; every condition, wrap and "
      "coordinate triple in the five neighbour enumerations (get_neighbors, are_neighbors, the kinetics derivative, "
      "GetNeighborIndex, grid_to_graph) uses coordinate, extent and boundary flag of one and the same axis; each "
      "enumeration's displacement set is the six unit moves with guards that keep the target inside the axis (linear "
      "entailment); opposed_direction pairs opposite moves; index <-> coordinate maps are x + y*w + z*w*h and its "
      "decode in both languages; grid_to_graph wires volume, environment, face and edge.",
      "static analysis: propositional (truth-table) and linear entailment on guard atoms, per-axis token "
      "consistency, polynomial normal forms of index maps, displacement-set recognisers over ast / Clang AST",
      "symmetry of the neighbour relation as a theorem; equality of grid and graph trajectories",
      "DESIGN.md section 6 C15")

claim("C05",
      "Abstract interpretation of all 113 (operator method x operand type) cases of UnitValue / UnitArray with symbolic "
      "unit systems and dimension vectors: on every returning path the number is computed in the system it is wrapped "
      "with, operands of + - % and comparisons are converted to one system and checked for equal dimension, results of "
      "* / ** and invert carry the sum / difference / multiple / negation of the dimension vectors; constructed "
      "exceptions are raised, never returned; element-wise array-array code is dominated by the length test; "
      "Units.multiply / invert / raiseto / __eq__ act component-wise with the right operator, the system guard "
      "dominates multiply, non-integral resulting exponents raise.",
      "static analysis: unit-tag abstract interpretation (TAG: symbolic system + affine dimension vector, path facts "
      "from dimension tests), must-fact dataflow for the length guard, syntactic raise discipline",
      "value-level operand order / sign of reflected operators; floating-point exactness; parsing of unit strings (C18)",
      "DESIGN.md section 6 C05")

claim("C16",
      "A value of the coarse-graining map is used as a subscript only where it is known != -1 (12 sites, must-facts); "
      "the validity check dominates every use of the map; aggregation reads state[s*size + i] and writes "
      "cg[s*cgsize + map[i]] with the coarse space built from this map; flags are the clamped sums; output edges are "
      "appended only under i != j, both != -1 and not-yet-present, together with their key, and existing edges "
      "accumulate the face; un-coarse-graining divides a group's value by that group's size into "
      "[sample][species][member cell].",
      "static analysis: must-fact dataflow over the Python ast (dominating guards), polynomial normal form of the "
      "aggregation subscripts, structural pairing checks",
      "conservation totals, centroid distances, identity-map equivalence (value-level)",
      "DESIGN.md section 6 C16")

claim("C03",
      "Every store to an amount (mesh_x) in the stochastic engines is dominated by a test of mesh_chstt at the "
      "polynomially identical index, the Euler derivative is zeroed before and accumulated only after the flag test of "
      "the same entry (20 stores); the flag is read by no rate / propensity function; the chemostat map reaches Init "
      "through the same transposition as the state; every Python subscript of the species-major state / chemostat "
      "arrays has kind species*size+cell built from the function's own species and position; apply_reaction tests the "
      "flag of the entry it updates and make_dxdtf multiplies each derivative by the factor of its own species.",
      "static analysis: must-fact dataflow with polynomial index identity over the Clang AST, reader inventory, "
      "vector-layout dataflow (VLAY), index-kind typing of Python subscripts",
      "equality with the recorded initial value beyond 'never written after Init' (t = 0 processing is C14)",
      "DESIGN.md section 6 C03")

claim("C20",
      "In all 13 readers the unknown-key check (policy error) precedes every key read; 15 mandatory keys raise when "
      "absent on every returning path; the 13 dimensioned setters and 6 helpers carry the dimension of their field "
      "and the owner's units system; enumerated setters (policies, modes, boundary axes and modes, unit symbols, "
      "environment names, grid sizes, cell_env length, labels, network validity) raise on the complement of their "
      "set; every function with a position parameter validates or delegates it before any other use and the "
      "validators entail the two-sided range; coarse-graining map values, environment indices and graph edge "
      "endpoints are range-checked on both sides before use.",
      "static analysis: ordering / must-fact dataflow over the Python ast, constant folding of dimension helpers "
      "against an oracle table, literal-set agreement, truth-table entailment of range tests",
      "that every invalid value of every field is rejected (only the listed classes); the tokeniser on malformed "
      "unit text (C18)",
      "DESIGN.md section 6 C20")

claim("C06",
      "The 31 entries of the SI table, folded from the source with exact rational arithmetic, equal an independent "
      "oracle (metric prefixes, min = 60 s, h = 3600 s, mol = Avogadro); the 7 litre and 9 molar symbols decompose "
      "exactly (scale(litre symbol) = scale(space unit)^3, xM = xmol per dm^3) with the exponents 3e / -3e / e; "
      "compute_conversion_factor multiplies (source / destination) ** exponent with one key for all five lookups over "
      "the three kinds; label lists = table keys = decomposition branches; every conversion to a target carrying a "
      "dimension is dominated by the dimension test and re-wraps (destination system, source dimension). Exhaustive "
      "over the tables.",
      "static analysis: constant folding with exact rationals against an oracle table, literal-table agreement, "
      "must-fact dataflow for the dimension guard",
      "the 1e-12 composition bound is not measured (it follows from the product-of-ratios structure)",
      "DESIGN.md section 6 C06")

claim("C13",
      "get_state_index is species_index*size + cell_index with both resolved from its arguments and all four per-entry "
      "accessors address exactly that entry; default state and chemostat map are concatenations in species order of "
      "blocks of space.size() entries, entry i from the species' value in the environment label of cell i; "
      "density x volume of the same cell is converted to the units system the block is then labelled with; "
      "get_value_in_env falls back environment -> 'default' -> default; grid index and its decode are "
      "x + y*w + z*w*h.",
      "static analysis: polynomial normal forms of index expressions, structural / def-use checks over the ast, "
      "must-fact dataflow for the fallback order",
      "the values (density x volume numbers)",
      "DESIGN.md section 6 C13")

claim("C17",
      "Every reshape of the trajectory data is (sample, species, cell) or (sample, state) and every subscript position "
      "carries the matching index kind; the point accessor's flat index is sample*nspecies*ncells + species*ncells + "
      "cell; species are resolved by the network with a raise on None and cells by the space; the three sample-index "
      "lookups return under exactly the documented boundary, interval and tie conditions (they tile the time axis); "
      "the query time is converted to the time array's units first.",
      "static analysis: index-kind typing of subscripts, polynomial normal form, must-fact dataflow at every return",
      "returned values",
      "DESIGN.md section 6 C17")

claim("C18",
      "Table consistency only: no unit label contains a character the tokeniser treats specially and every label is a "
      "fixed point of the u -> micro replacements; the replaced spellings are exactly the micro labels and do not "
      "clobber each other; derived symbols decompose exactly and label lists agree with the tables (shared with C06); "
      "the printer emits base labels with str(int) exponents joined by '.', value and unit separated by a blank.",
      "static analysis: literal-table agreement and fixed-point check of the replacement rules over the ast",
      "the tokeniser's behaviour on arbitrary and malformed text, and the bit-identical float round trip (most of the "
      "property): these quantify over arbitrary strings",
      "DESIGN.md section 6 C18")

claim("C19",
      "kf / kr dimension helpers are (3n-3, -1, 1-n) as affine forms in the coefficient sum of their own side; order, "
      "ssto, kf read the reactant side and rorder, psto, kr the product side only, dsto is products - reactants; split "
      "builds (reactants, products, kf) and (products, reactants, kr) with kr = 0 and the parent's units, K = kf / kr; "
      "repeated labels accumulate; the network asserts validity at the end of construction; the engine's stoichiometric "
      "matrices are [species][reaction] tables of ssto / dsto.",
      "static analysis: polynomial normal forms, side-of-reaction read sets, structural wiring checks over the ast",
      "parsing of arbitrary equations; the print-parse round trip",
      "DESIGN.md section 6 C19")

claim("C08",
      "The only nondeterminism sources in the translation unit are the two now() calls of engineexport_run, whose values "
      "flow only into the slice-ending break condition (def-use); every mt19937 is constructed from the seed parameter, "
      "the member generator is assigned only by Init and receives the export's seed; on every success path both "
      "initialize exports assign the space type, a fresh algorithm object and the liveness flag; every field read by "
      "Iterate- / getter-reachable code is written by Init-reachable code (or earlier in the same iteration) for all six "
      "engines; the three driver exports touch the simulation only through Iterate(); Python draws randomness only for "
      "a missing seed, passes script.rng_seed and stores the script copy it used; the Euler engines reach no draw.",
      "static analysis: call / type inventory over the Clang AST, def-use of clock values, effect inventories closed "
      "over the resolved call graph (virtual calls per concrete class), must-fact definite assignment",
      "bit-identity across compilers / libm (same binary assumed); sharing of the global simulation (C10.ISOLATION)",
      "DESIGN.md section 6 C08")

claim("C09",
      "The getter exports fill their buffers as [sample][species][cell] (IDX layouts) and the Python buffers have the "
      "matching extents; state and time are pushed together on every path and only by Sample(), under the "
      "once-per-iteration flag that every Iterate re-arms first; in all six Iterate the clock advances after the "
      "state-changing step, SamplingStep follows the clock, CheckTMax follows SamplingStep, and every path that "
      "performed a step passes both; Init ends with SamplingStep; policy strings -> codes -> switch labels -> handlers "
      "agree across RDScript, both initialize exports and both SamplingStep; the time-point / interval / t_max "
      "handlers have the documented conditions; default t_max is the last requested time.",
      "static analysis: index-layout inference, path-fact engine (pairing, ordering on all paths), string / code / "
      "handler table agreement across the language boundary",
      "which step covers which requested time, interval boundaries, number of steps performed (value-level)",
      "DESIGN.md section 6 C09")

claim("C02",
      "In the tau-leap and Gillespie engines each diffusion move is one removal and one addition of the same amount of "
      "the same species, the destination being the neighbour-table entry of (source cell, the move's direction), "
      "separated only by the chemostat tests of their own entries; the Euler flux subtracted for an interface is the "
      "neighbour's flux in the opposed direction, the interface diffusivity is symmetric in the two cells and kd_in is "
      "kd_out with the volumes exchanged (exact rational normal forms); in all six engines the stoichiometric row is the "
      "updated species' own and the firing count does not depend on the species variable; only the apply functions "
      "write the state.",
      "static analysis: update summaries with must-facts over the Clang AST (UPD), polynomial identity of indices, "
      "rational-function normal forms (GVN) for symmetry, effect inventory",
      "floating-point exactness of the deterministic sums",
      "DESIGN.md section 6 C02")

claim("C07",
      "Structure of a legal step only: on every path through DrawAndApplyEvent (path-sensitive in its boolean flags) at "
      "most one event is applied; diffusion events move exactly one molecule and reaction events add sto[s, r]; the "
      "entry decremented is the source whose amount enters the propensity of the same (cell, species, direction) and the "
      "applied channel is the one just accumulated by the search; ReactionProp is the falling factorial with trip count "
      "and sufficiency test at the same sub[s, r], zero when insufficient; every propensity is added once to its cell's "
      "partial sum and once to a0 and the searches walk the index sets that were summed; tau-leap counts are "
      "Poisson(propensity x dt) stored and applied at one index; propensities are rates and Poisson means pure numbers "
      "(dimensional analysis modulo amount).",
      "static analysis: path-sensitive path-fact engine, update summaries, loop-bound agreement of sum and search, "
      "dimensional abstract interpretation (DIM)",
      "the statistics (waiting-time and choice distributions, Poisson law), non-negativity, strict increase of time",
      "DESIGN.md section 6 C07")

claim("C01",
      "Both initialize call sites pass the C parameter count and, position by position, the matching ctypes type; every "
      "Python buffer has the extent the engine reads; each table (k, sub, sto, D, mesh_kr, mesh_kd and its ragged twins, "
      "state) has one layout at all its subscripts and the Python builders use the same one; the Euler pipeline is "
      "dimensionally homogeneous with mesh_kr : Q^(1-n)/T, mesh_kd : 1/T and the derivative amount/time (which forces the "
      "volume exponent 1-order and the division by edge^2 / volume x distance); the four implementations of the interface "
      "diffusivity (kinetics grid and graph, engine 3D and graph) are the same symmetric rational function, zero unless "
      "both coefficients are non-zero; the Euler derivative pass does not write the state and the update is "
      "x[I] += dxdt[I]*dt; k and D are selected by the cell's environment index, Python lookups by its label with the "
      "documented fallback; the Python siblings have the mass-action / first-order structure.",
      "static analysis: ctypes-signature and extent agreement (FFI), index-kind and layout inference (IDX), dimensional "
      "abstract interpretation with a symbolic reaction order (DIM), exact rational normal forms of sibling formulas "
      "(GVN), effect inventory and update summaries",
      "agreement of the numbers to rounding; that the mean is harmonic only relatively (all four agree, symmetric, right "
      "dimension); a dimensionally consistent numeric change applied to all siblings at once",
      "DESIGN.md section 6 C01")

claim("C04",
      "Every double handed to the engine is `X.convert(units_system).value` (or built by a function that converts each "
      "entry) with the one engine units system fixed, molecule-overridden and remembered before marshalling, and the "
      "output is re-wrapped with that system and the right dimension before conversion to the script's; all additive / "
      "comparison operations of the six engines, clock and sampling included, are dimensionally homogeneous; every reader "
      "resolves its level's units system from its own dictionary with the parent as fallback and hands exactly that to "
      "its children, loaders pass the parent through; the 13 dimensioned setters read bare numbers in the owner's system, "
      "which every constructor assigns first; all 35 `.value` extractions outside units.py are taken after a conversion, "
      "next to the same object's units, or compared with 0.",
      "static analysis: syntactic tag analysis of every `.value` site and ctypes argument (TAG), dimensional abstract "
      "interpretation of the engine (DIM), def-use of the units-system argument along the reader chain",
      "equality of the numbers after rounding",
      "DESIGN.md section 6 C04")

# clauses added in rounds 2-3 (DESIGN.md section 13b); appended to the claim text of the property
LINTS = (" Package-wide disciplines checked in the property's modules: truthiness tests only on boolean-valued expressions "
         "(TRUTH), no rounding / truncation / tolerance / fixed-precision formatting (LOSSY), no function modifies an "
         "argument (PURE), every name and self-attribute resolves (NAMES), accumulators used as quantities receive one on "
         "every path (ACC), copy() copies every field (COPY), only constructors / setters / named mutators store into self "
         "(QUERY), nothing is memoised (MEMO), getters that promise a copy return one (COPYOUT), no two arguments of a call are "
         "mutually exchanged (ARGS), no function writes a module-level object (MEMO), `x in c` is not a substring search in a "
         "joined text (MEMBER), no parameter is unused (PARAMS); in the engine no running sum is stored inside a loop it "
         "accumulates over (RUNSUM); setters and constructors keep copies of array arguments, not views (ALIAS); a label is compared as given, never after folding "
         "case or trimming blanks (LABEL).")
ADDENDA = {
    "C01": " The Euler update pass stores each state entry once (PHASE). Inside the Euler direction loop the only tests that skip a neighbour are the table's own -1 (or the cell itself) and the entry's chemostat flag (PHASE); every conversion factor is taken from the converted object's own system (ARGS-CONV). The reaction rates of a cell are computed unconditionally; grouped environment keys reach every listed environment (GROUPKEY). Every species contributes its factor to the Euler rate (a factor may be skipped only where its own reactant coefficient is 0); Iterate calls the derivative pass and the update pass once each, outside every loop. Each axis's boundary mode reaches the engine slot of that axis (AXIS). The graph is undirected in get_edge and in the neighbour enumeration of the graph kinetics (NEIGH); Iterate runs the "
           "whole derivative pass before the update pass." + LINTS,
    "C02": " The two halves of a diffusion move stand under the same conditions, their own chemostat flags aside (PAIR). The three per-node neighbour lists of the graph engine are parallel: none of them is re-ordered, erased from or handed to an algorithm by iterator (NBR-TABLE). The samples handed to the caller are the ones the engine recorded (FETCH-PY). The Euler derivative pass does not write the state and a separate update pass exists (PHASE); state and chemostat flags reach Init in one layout with counts of the right kind (TRANSPOSE). The grid neighbour table is exactly GetNeighborIndex(coordinates of i, n) and is written nowhere else, graph edges are "
           "registered from both ends (NBR-TABLE); un-coarse-graining gives each cell node value / node size (UNCG)." + LINTS,
    "C03": " No bare number of a quantity is taken without conversion on the derivative path (STATE); free entries follow the tau-leap firing law (TAU). The Euler derivative / update passes are those of C01.PHASE. The samples handed to the caller are the ones the engine recorded (FETCH-PY). Every path of the per-entry kinetics derivative that returns a computed rate has passed the chemostat test of the entry with a negative answer (PY-ZERO). The chemostat map crosses the ctypes boundary as a c_int array (FFI); a state update depends on the flag of its own "
           "entry and on no other entry's flag." + LINTS,
    "C04": " A units declaration is found under every alias of its key (SCHEMA). Litre / molar symbols decompose with their SI meaning (DERIVED, also when the decomposition is computed from the symbol's text). Integer division in the engine's formulas is evaluated as C++ does (pow(V, 2/3) is pow(V, 0)). A function given a units_system converts every extracted number to that system (ONE-SYSTEM); the conversion rules of C06 are checked under this property too. Dimensioned fields are serialised with their units (SERIAL); a quantity constructed from a quantity takes number and label from one object (CTOR); the script level hands its units system to referenced system files." + LINTS,
    "C05": " The quantity classes are not readable as sequences by numpy unless they opt out of numpy's conversion, so `number op quantity` always reaches the reflected operator (REFLECTED). With a quantity operand, + - % and the comparisons return a result only on a path that found the two dimensions equal. Comparison operators return the comparison of the magnitudes itself (CMP); the array (op) array branch is dominated by "
           "the length test (LEN)." + LINTS,
    "C06": " A computed element type is not used for stored numbers; UnitArray.set_at stores the given quantity converted to the array's units (SET-AT); a class's own __ne__ is the negation of its __eq__ (EQ3). UnitValue.convert returns only through the guarded converter. Factors of one base kind add their exponents (EXPSUM); the destination system of a conversion is a function of the target argument alone (DIMGUARD). Every call of convert_value / compute_conversion_factor names the converted object's own system as the source (ARGS); module-level constants (Avogadro) are folded into the SI table check. _UnitsComponentDict.__eq__ is true only when all three components are equal (EQ3)." + LINTS,
    "C07": " Every LibRDEngine built for a stochastic option is built with the molecule flag (UNITS). Every direction of the neighbour table is scanned where diffusion events are listed and drawn (NBR-USE). Engine tables are addressed in their one layout (LAYOUT). All counts of a tau-leap step are drawn before the first is applied (Compute_nevt and Apply_nevt once each, outside every loop). A tau-leap step advances the clock by the dt of Poisson(propensity x dt) (TAU). Propensities are recomputed for every cell and channel, independent of the cell's content (ALL-CHANNELS). A diffusion event moves one molecule between a cell and that direction's neighbour, each half suppressed only by its own "
           "chemostat flag (PAIR); every value returned by Poisson(lambda) is 0 or one draw of std::poisson_distribution(lambda) "
           "from the engine's generator (TAU); every number the engines receive is converted to the molecule-forced engine units "
           "(UNITS); event choice and waiting time use independent uniform draws (DRAWS).",
    "C08": " What an earlier run left in the engine object is re-initialised by setup (RESET). The loop that drives engine.run() asks the engine only for progress / completion (DRIVER); iterations past completion change nothing (STICKY). The mode x engine decision table of the initialisers (DISPATCH), with predicates asked of the algorithm object resolved through the class constructed for the option. A refusal code of the native initialiser is raised by the Python caller or decided by the arguments alone, never by library-wide state (GLOBALS). setup / _setup_grid / _setup_graph / simulate_script do not write through any alias of the caller's script (PY-PURE)."
           + LINTS,
    "C09": " The dead-state exit belongs to the exact engine only (COMPLETE). The two fetch methods fill what they return from the native buffer only (FETCH-PY). Completion is flagged only past t_max or in a dead state (COMPLETE). A saved trajectory carries the recorded times (TRAJ)." + LINTS,
    "C10": " What the engine object keeps from a set-up is a copy, never the caller's own script object (OWN). The loop exports return a bool, 0 or 1 (STATUS: Python reads them by truthiness); a delete through an algorithm pointer is reached under that pointer's type code or followed by a reset to null. Completion is flagged only past t_max or in a dead state (COMPLETE); the native release is reached only through finalize() itself, not from a destructor or another method of an engine object (RELEASE); refusal codes of the initialiser reach the caller (GLOBALS). setup leaves the caller's script untouched (PY-PURE)." + LINTS,
    "C11": " An index local stepped in a loop that never compares it with a bound is a violation (BOUNDS). Nothing deletes through the type-selected pointer while the type code does not identify the live object (TYPE-PTR); fetch buffers are sized from the engine's own copy of the script (OWN). Float-to-integer conversions are of quantities bounded by construction (FPCAST, frozen table with reasons); index data is range-checked on both ends where it enters (EXTIDX). Integer divisions divide by grid extents, non-zero literals or tested divisors (INTDIV); a delete through an algorithm pointer is reached under its type code or followed by a reset (FINALIZE). n_env and the per-environment tables are built over the network's whole environment list, the one the cell environment indices are validated against (ENV-RANGE). `T[E - c]` (last elements) needs a dominating test that the table is not empty; the value BuildMeshNeighbors stores is a valid cell index or -1 (GetNeighborIndex rules of C15). An index formed by adding a value of no index kind to an index of a known kind is reported as unbounded; a Python buffer "
           "built by a length-changing call (np.unique, set, filter ...) does not have the extent the engine is told; neighbour counts and "
           "rows grow on exactly the same paths (RAGGED-PAIR).",
    "C12": " A reader puts into the constructor's argument table only what it computed from its dictionary, and a per-environment table is written as a table (DEFAULTS). The default state an omitted key stands for is density x volume of each cell (CONCAT); a UnitValue holds a Python float, so its printed text reads back to the same bits (UNITSTR). Path resolution never looks at the file system or the working directory (FILEREF); the literal key read by the units lookup helper is the canonical key of its row (SCHEMA). A dictionary parsed from a file is interpreted relative to that file's directory (FILEREF); the equation text of a reaction reads back with whole tokens as labels (ACCUM); a value filter in front of float() accepts every shape str(float) prints (VALUE-READ). A writer emits each key on every path except the two idioms whose absence reads back as the same value (COND-KEY); "
           "str(UnitValue) prints str(value), a blank, the units (shared with C18)." + LINTS,
    "C13": " Every piece of a grouped key becomes a key: the iterable is followed through locals and comprehensions, a filter is a violation (GROUPKEY). The volume multiplied into entry i is read at index i (TAG); setters keep copies of array arguments (ALIAS). The system holds the network object it was given and the default generators read it when called (REGEN). Grouped environment keys are stripped per label (GROUPKEY); nested objects inherit the units of their own level (INHERIT). get_value_in_env selects by membership (`in` / dict.get), never by truthiness (ENV)." + LINTS,
    "C14": " Besides the selection, a unit correction stands only under conditions on the difference and its direction; every scalar that steers the correction is (re)initialised for each species (COUNT). The amounts handed to the engine are the state's, converted from the state's own units (STATE); a coarse-grained run keeps the script's mode (SCRIPT). Every value stored into the drawn state is a whole number by construction (INTEGER); the correction's selection is weighted by the real-valued input amounts and its target scaled by their floored total (COUNT). The element-wise modes index the state over all cells x species entries (EVERY-ENTRY); the script reader passes init_state_processing on (SCHEMA). The redistribution selects the first cell whose running sum strictly exceeds the target; no function-local static survives a set-up (STATIC). The correction counter advances under exactly the conditions of a unit update of the drawn state (COUNT); the seed "
           "handed to the engine is the script's and only a missing seed is drawn (SEED-PY)." + LINTS,
    "C15": " get_cell_index truncates each coordinate on its own (RADIX). Inside the direction loop of Build_mesh_kd the only test that excludes a (cell, direction) pair is the neighbour table's -1 or a zero coefficient (NBR-USE). get_edge is orientation-free in loop, generator or table form, the table being filled under the key it is read with (NEIGH); edge quantities reach the engine converted from their own units (STATE). Every loop over the direction slot of the neighbour table visits all six directions. An adjacency answer computed from linear indices without their coordinates is a violation (row ends). The per-axis boundary modes reach slot k from the parameter of axis k, in if-chain or table form. No engine subscript addresses a cell through index arithmetic on another cell index (NBR-USE); are_neighbors returns "
           "sum over the axes of the wrapped coordinate distance == 1, decided on the symbolically evaluated return value." + LINTS,
    "C16": " State and chemostat flags reach the grid and the graph initialiser in one layout (TRANSPOSE). The graph engine's edge constants are the kinetics formula with source and destination not exchanged (ANTISYM). Output edges are kept one per unordered pair of groups, in list-search or dictionary form (EDGE). The graph Euler passes are those of the grid engine (PHASE); the map is validated as the caller gave it (VALID-FIRST). No rejection is guarded by a condition on volumes, surfaces or distances (ACCEPT). The environment-mixing rejection is reached only for a group index other than -1 (ACCEPT). Edge distances are the centroid distances, unconditionally (DIST); every number of the graph set-up is converted to the engine units (BOUNDARY); tables are addressed with one index kind (LAYOUT). The state accumulator is not an integer array (KIND); the coarse-grained script is the script with only its system "
           "replaced (SCRIPT); the returned trajectory passes every RDTrajectory field from the coarse one (UNCG-TRAJ)." + LINTS,
    "C17": " The time axis tiles are matched by returned value and guarding tests, a missing tile and an undocumented return both being violations (TILING). get_sample_index answers only through the three finders. The saved data file holds the flat data array (TRAJ); queries store nothing in self (QUERY)." + LINTS,
    "C18": " Every store to UnitValue._value is float(..) (PRINT). A parameter handed to parse_units is not rewritten on the way (RAW-TEXT). Inside a factor the symbol text grows only until the first exponent character (EXPSTATE). Factors of one base kind add their exponents (EXPSUM); a value filter in front of float() accepts every shape str(float) prints (VALUE-READ). Every factor passes the unknown-unit test and the empty text is answered before the factor loop (BLOCKS); '/' inverts exactly the factor it precedes (EXPSIGN). str(UnitValue) prints str(value) (no digits dropped)." + LINTS,
    "C19": " A side is compared with the empty text only: no other word stands for an empty side (ACCUM); to_string appends a term only for a non-zero coefficient, in the flag or in the join form (PRINT). The equation text reaches the parser as written; `!=` between dimension objects is the negation of `==` (EQ3). A label is one whole whitespace-delimited token and a coefficient the integer value of another; duplicate labels are decided on the label's value; every quotient of equilibrium_constant is forward over reverse of the same environment under a zero test of its denominator (K). A regular-expression term parser must require whitespace between coefficient and label. The equation is cut at '->', '+' and at arbitrary whitespace inside a term (tokenisation)." + LINTS,
    "C20": " Every store of the environment list is preceded on its path by the emptiness and reserved-name tests (ENUM). Every value a dimensioned setter stores went through the dimension test (DIMS); the coarse-graining map is validated as given (CGMAP). A membership test made on a transformed copy of a value is followed by storing that copy (ENUM). Duplicate synonyms are counted over the whole row (SYNONYMS). UnitArray.set_value takes the number of a UnitValue item only after its dimension was compared with the array's on every "
           "path (ITEMDIM)." + LINTS,
}
TECH_ADD = ("; canonicalisation before the rules (inventory-based helper inlining, accumulator promotion, enumerate / literal-loop "
            "normalisation, continuation-style inlining of search helpers, builder-dictionary / callable-alias / array-alias forms; "
            "C++: guarded-value helpers, row pointers, for(;c;step) loops, enum case labels; locals aligned with the reference names by alpha-renaming in both languages, positional / keyword call shapes aligned with the reference calls; constants to the right of == / !=, negated two-way ifs written positively, x = x op e as compound assignment, named results and edit-introduced single-use temporaries folded back), symbolic evaluation of Python returns (pysym)")

NOT_YET = {}

def main():
    props = [json.loads(l) for l in open(os.path.join(os.path.dirname(os.path.abspath(__file__)), "properties.jsonl"))]
    checks, na = [], []
    for p in props:
        pid = p["id"]
        if pid in CLAIMS:
            text, tech, und, ref = CLAIMS[pid]
            text = text + ADDENDA.get(pid, "")
            tech = tech + TECH_ADD
            checks.append({
                "property_id": pid,
                "quick_cmd": "/venv/bin/python -m sa check %s --tier quick" % pid,
                "thorough_cmd": "/venv/bin/python -m sa check %s --tier thorough" % pid,
                "evidence_file": "evidence/%s.json" % pid,
                "replay_cmd_template": "/venv/bin/python -m sa replay {path}",
                "engine": "sa",
                "level_claimed": {"category": "other", "text": "Static analysis, partial claim (named structural "
                                  "clauses that are necessary conditions of the property, decided for every input at "
                                  "once; not the run-time behaviour). " + text, "design_ref": ref},
                "level_note": TRUST + "Not decided: " + und + ".",
                "technique": tech})
        else:
            na.append({"property_id": pid, "reason": NOT_YET.get(pid, "rules for this property are designed "
                       "(DESIGN.md section 6) but not built yet; no claim is made until they run")})
    m = {"version": 1,
         "setup_cmd": "/venv/bin/python -m sa doctor",
         "hooks": {"guard": "STRENGTHS_VERIF", "enable": "none: the analysis reads sources only; nothing in /repo is "
                   "instrumented", "baseline_off_cmd": BASE, "source_commits": [], "add_only": True},
         "engines": [{"name": "sa", "path": "sa/", "serves_properties": sorted(CLAIMS),
                      "kind_free_text": "repository-specific static analyser (Python ast + Clang JSON AST; path-fact "
                      "engine, index/dimension/tag abstract interpretation, effect inventories, table agreement)"}],
         "checks": checks,
         "notes": "All checks are static (no execution of the package or the engine, no solver). Genuine defects found "
                  "are in known_findings.json (fixed: entries name the fix: commit in /repo). Thorough tier = same rules "
                  "over the whole tree plus the mutant self-test of the checker on scratch copies.",
         "not_applicable": na}
    json.dump(m, open(os.path.join(os.path.dirname(os.path.abspath(__file__)), "MANIFEST.json"), "w"), indent=1)
    print("claimed", len(checks), "not_applicable", len(na))

if __name__ == "__main__":
    main()
